#!/usr/bin/env python3
"""Emit a go build overlay that injects the verif-tagged accessor files into the repository packages."""
import json, os, sys
repo, src, work = sys.argv[1:4]
rep = {}
dest = {"zz_verif_lexer.go": "", }
for name, sub in dest.items():
    rep[os.path.join(repo, sub, name)] = os.path.join(src, name)
print(json.dumps({"Replace": rep}))
