#!/usr/bin/env python3
"""mkmeta.py <round> <results file of selftest/seeded.sh lines> [<id>=<why initially missed> ...]
Writes seeded/<id>/meta.json for every mutant named in the results file (target check only)."""
import json, re, sys, os
rnd, resfile = sys.argv[1], sys.argv[2]
missed = dict(a.split('=', 1) for a in sys.argv[3:])
here = os.path.dirname(os.path.dirname(os.path.abspath(__file__)))
for line in open(resfile):
    m = re.match(r'seeded/(C\d\d-\w) (C\d\d) exit=(\d+) violations=(\d+) first=\[(.*)\]', line.strip())
    if not m:
        continue
    mid, chk, rc, n, sig = m.groups()
    if chk != mid[:3]:
        continue
    d = os.path.join(here, 'seeded', mid)
    note = open(os.path.join(d, 'NOTE.md')).read().strip().split('\n')
    meta = {
        "property": mid[:3], "round": rnd, "breaks": "see NOTE.md",
        "needs_to_manifest": note[:6],
        "confirmed_by_me": ["patch applies to a scratch worktree of /repo HEAD", "go test ./... passes with the change",
                            "demo_test.go fails with the change and passes without it (selftest/verify_seeded.sh)"],
        "detected_by": {"check": f"./check {chk} quick", "first_signature": sig, "how_run": f"selftest/seeded.sh seeded/{mid} {chk}"} if rc == '1' else None,
        "initially_missed": missed.get(mid),
    }
    json.dump(meta, open(os.path.join(d, 'meta.json'), 'w'), indent=1)
    print(mid, 'caught' if rc == '1' else 'MISSED', sig)
