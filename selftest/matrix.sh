#!/bin/bash
# matrix.sh : run every quick check against every seeded change on a private copy of the repository.
# usage: VERIF_REPO=<scratch repo worktree> selftest/matrix.sh [seeded dirs...] > matrix.txt
V="$(cd "$(dirname "$0")/.." && pwd)"
for d in "${@:-$V/seeded/*}"; do
  for dd in $d; do
    [ -f "$dd/patch.diff" ] || continue
    "$V/selftest/seeded.sh" "$dd"
  done
done
