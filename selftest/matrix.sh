#!/bin/bash
# matrix.sh : run the quick checks related to each seeded change (plus its target) on a private copy of the repository.
# usage: VERIF_REPO=<scratch repo worktree> selftest/matrix.sh > matrix.txt     (FULL=1: all 20 checks per change)
V="$(cd "$(dirname "$0")/.." && pwd)"
related() {
  case "$1" in
    C12-B|C13-*|C14-*|C16-A|C03-B) echo C03 C12 C13 C14 C16 C01 ;;
    C01-*|C02-*|C07-*|C08-*|C16-B) echo C01 C02 C06 C07 C08 C16 ;;
    C03-A|C09-*|C10-*) echo C03 C04 C05 C09 C10 ;;
    C05-*|C06-*|C19-A) echo C05 C06 C19 C17 C01 ;;
    C04-*|C17-*|C19-B) echo C04 C17 C19 C01 ;;
    C18-*) echo C18 C01 ;;
    C11-*|C12-A) echo C11 C12 C08 ;;
    C15-*) echo C15 C01 ;;
    C20-*) echo C20 C09 ;;
    *) echo C01 ;;
  esac
}
for dd in "$V"/seeded/*; do
  [ -f "$dd/patch.diff" ] || continue
  id=$(basename "$dd")
  if [ "${FULL:-0}" = 1 ]; then "$V/selftest/seeded.sh" "$dd"; else "$V/selftest/seeded.sh" "$dd" $(related "$id"); fi
done
