#!/bin/bash
# verify_seeded.sh <out-dir (with patch.diff, demo_test.go)> <scratch worktree>
# Confirms: patch applies; full suite passes with it; demo fails with it; demo passes without it.
export GOFLAGS=-mod=mod GOPROXY=off GOSUMDB=off GOTOOLCHAIN=local
D="$1"; W="$2"
cd "$W" || exit 2
git checkout -q -- . ; git clean -fdq
pkg=$(grep -m1 '^package ' "$D/demo_test.go" | awk '{print $2}')
case "$pkg" in
  memefish|memefish_test) dest=. ;;
  ast|ast_test) dest=ast ;;
  token|token_test) dest=token ;;
  char|char_test) dest=char ;;
  poslang|poslang_test) dest=tools/util/poslang ;;
  astcatalog|astcatalog_test) dest=tools/util/astcatalog ;;
  *) dest=. ;;
esac
res=""
git apply "$D/patch.diff" 2>/dev/null || { echo "$D: PATCH-DOES-NOT-APPLY"; exit 1; }
if go build ./... 2>/dev/null && go test -vet=off -count=1 ./... > /tmp/vs.$$.log 2>&1; then res="suite=pass"; else res="suite=FAIL"; fi
cp "$D/demo_test.go" "$dest/zz_demo_test.go"
if timeout 120 go test -vet=off -count=1 ./$dest/ > /tmp/vs.$$.demo1 2>&1; then res="$res demo_with=PASS(bad)"; else res="$res demo_with=fail"; fi
git checkout -q -- . ; 
if timeout 120 go test -vet=off -count=1 ./$dest/ > /tmp/vs.$$.demo2 2>&1; then res="$res demo_without=pass"; else res="$res demo_without=FAIL(bad)"; fi
git clean -fdq
rm -f /tmp/vs.$$.*
echo "$D: $res"
