#!/bin/bash
# seeded.sh <dir with patch.diff> [check ids...]   (default: all 20 quick checks)
# Applies the seeded change to /repo, runs the checks (evidence/replays go to a scratch directory),
# reverts /repo, prints which checks reported a violation.
set -u
D="$(cd "$1" && pwd)"; shift
CHECKS="${*:-C01 C02 C03 C04 C05 C06 C07 C08 C09 C10 C11 C12 C13 C14 C15 C16 C17 C18 C19 C20}"
V="$(cd "$(dirname "$0")/.." && pwd)"
OUT="$V/.work/seeded-$$"; mkdir -p "$OUT"
R="${VERIF_REPO:-/repo}"
if ! git -C "$R" diff --quiet; then echo "$R is not clean" >&2; exit 2; fi
git -C "$R" apply "$D/patch.diff" || { echo "patch does not apply" >&2; exit 2; }
trap 'git -C "$R" checkout -- . ; git -C "$R" clean -fdq; rm -rf "$OUT"' EXIT
for c in $CHECKS; do
  VERIF_OUT="$OUT" "$V/check" "$c" quick > "$OUT/$c.log" 2>&1; rc=$?
  sig=$(grep -m1 "^  signature:" "$OUT/$c.log" | sed 's/  signature: //')
  n=$(grep -c "^VIOLATION" "$OUT/$c.log")
  echo "$(basename "$(dirname "$D")")/$(basename "$D") $c exit=$rc violations=$n first=[$sig]"
done
