#!/usr/bin/env python3
"""(Re)create the deliberate property-breaking patches of DESIGN.md §9 against the current /repo HEAD.
Each patch must compile and keep the repository's own test suite green (checked here)."""
import subprocess, os, sys, json
REPO = "/repo"
ENV = dict(os.environ, GOFLAGS="-mod=mod", GOPROXY="off", GOSUMDB="off", GOTOOLCHAIN="local")
M = [
 ("m01_addsub_right_assoc", "parser.go", [("""		p.nextToken()
		expr = &ast.BinaryExpr{
			Left:  expr,
			Op:    op,
			Right: p.parseMulDiv(),
		}
	}
}""", """		p.nextToken()
		return &ast.BinaryExpr{
			Left:  expr,
			Op:    op,
			Right: p.parseAddSub(),
		}
	}
}""")], ["C07"]),
 ("m02_pos_go_only", "ast/pos.go", [("""func (i *IndexExpr) End() token.Pos {
	return posAdd(i.Rbrack, 1)""", """func (i *IndexExpr) End() token.Pos {
	return i.Rbrack""")], ["C19", "C05", "C06"]),
 ("m03_walk_swap", "ast/walk_internal.go", [("""		stack = append(stack, &stackItem{node: wrapNode(n.Then), visitor: v.Field("Then")})
		stack = append(stack, &stackItem{node: wrapNode(n.Cond), visitor: v.Field("Cond")})""", """		stack = append(stack, &stackItem{node: wrapNode(n.Cond), visitor: v.Field("Cond")})
		stack = append(stack, &stackItem{node: wrapNode(n.Then), visitor: v.Field("Then")})""")], ["C17", "C19"]),
 ("m04_lookahead_no_restore", "parser.go", [("""func (p *Parser) lookaheadWithExprVar() bool {
	lexer := p.Lexer.Clone()
	defer func() {
		p.Lexer = lexer
	}()

	if p.Token.Kind != token.TokenIdent {
		return false
	}

	p.parseIdent()
	return p.Token.Kind == "AS"
}""", """func (p *Parser) lookaheadWithExprVar() bool {
	lexer := p.Lexer.Clone()

	if p.Token.Kind != token.TokenIdent {
		return false
	}

	p.parseIdent()
	if p.Token.Kind == "AS" {
		p.Lexer = lexer
		return true
	}
	return false
}""")], ["C08", "C01", "C02"]),
 ("m05_parsetype_no_eof_check", "parser.go", [("""	p.nextTokenOrBad()
	t := p.parseType()
	if p.Token.Kind != token.TokenEOF {
		p.errors = append(p.errors, p.errorfAtToken(&p.Token, "expected token: <eof>, but: %s", p.Token.Kind))
	}
""", """	p.nextTokenOrBad()
	t := p.parseType()
""")], ["C09"]),
 ("m06_expr_recovery_nesting", "parser.go", [("""		case ")", "]", "}", "END", "THEN":
			if nesting == 0 {
				break skip
			}
			nesting -= 1
		case ",", "AS", "FROM", "GROUP\"""".replace('\\"', '"'), """		case ")", "}", "END", "THEN":
			if nesting == 0 {
				break skip
			}
			nesting -= 1
		case "]":
			if nesting == 0 {
				break skip
			}
		case ",", "AS", "FROM", "GROUP\"""".replace('\\"', '"'))], ["C10", "C05", "C09"]),
 ("m07_split_cut_at_end", "split.go", [("""				End:       lex.Token.Pos,
				Statement: s[firstPos:lex.Token.Pos],
			})
			if err := lex.NextToken(); err != nil {""", """				End:       lex.Token.End,
				Statement: s[firstPos:lex.Token.End],
			})
			if err := lex.NextToken(); err != nil {""")], ["C12", "C11"]),
 ("m08_skipspaces_one_byte", "lexer.go", [("""		case unicode.IsSpace(r):
			l.skipN(size)""", """		case unicode.IsSpace(r):
			_ = size
			l.skipN(1)""")], ["C13", "C14", "C03"]),
 ("m09_keywordlike_asstring", "token/token.go", [("""	return t.Kind == TokenIdent && char.EqualFold(t.Raw, s)""", """	return t.Kind == TokenIdent && char.EqualFold(t.AsString, s)""")], ["C16", "C14", "C01"]),
 ("m10_resolvepos_lt", "token/file.go", [("""		if linePos <= pos {""", """		if linePos < pos || linePos == 0 {""")], ["C20"]),
 ("m11_quote_forgets_cr", "token/quote.go", [("""	case isString && r == '\\r':
		return `\\r`
""", "")], ["C15", "C01"]),
 ("m12_star_sql_forgets_replace", "ast/sql.go", [("""	return "*" + sqlOpt(" ", s.Except, "") + sqlOpt(" ", s.Replace, "")""", """	return "*" + sqlOpt(" ", s.Except, "")""")], ["C02", "C01"]),
 ("m13_number_accepts_glued_ident", "lexer.go", [("""	if l.peekOk(0) && char.IsIdentPart(l.peek(0)) {
		if noPanic {
			l.Token.Kind = token.TokenBad
			return
		}
""", """	if l.peekOk(0) && char.IsIdentPart(l.peek(0)) && base == 10 {
		if noPanic {
			l.Token.Kind = token.TokenBad
			return
		}
""")], ["C14"]),
 ("m14_global_ident_scratch", "lexer.go", [("""func (l *Lexer) consumeQuotedContent(q string, raw, unicode bool, name string, noPanic bool) (string, bool) {""", """var quotedScratch []byte

func (l *Lexer) consumeQuotedContent(q string, raw, unicode bool, name string, noPanic bool) (string, bool) {"""),
   ("""	i := len(q)
	var content []byte
	hasError := false
""", """	i := len(q)
	content := quotedScratch[:0]
	defer func() { quotedScratch = content }()
	hasError := false
""")], ["C18"]),
 ("m15_memoised_sql", "ast/sql.go", [("""func (i *Ident) SQL() string {
	return token.QuoteSQLIdent(i.Name)
}""", """var identSQLCache = map[string]string{}

func (i *Ident) SQL() string {
	if s, ok := identSQLCache[i.Name]; ok {
		return s
	}
	s := token.QuoteSQLIdent(i.Name)
	if len(identSQLCache) < 1024 {
		identSQLCache[i.Name] = s
	}
	return s
}""")], ["C18"]),
 ("m16_depth_counter", "parser.go", [("""func (p *Parser) parseExpr() (expr ast.Expr) {
	l := p.Lexer.Clone()""", """var exprDepth int

func (p *Parser) parseExpr() (expr ast.Expr) {
	exprDepth++
	defer func() { exprDepth-- }()
	if exprDepth > 3 {
		p.panicfAtToken(&p.Token, "expression nested too deeply")
	}
	l := p.Lexer.Clone()""")], ["C18"]),
]
def sh(cmd, **kw):
    return subprocess.run(cmd, shell=True, cwd=REPO, env=ENV, capture_output=True, text=True, **kw)
assert sh("git diff --quiet").returncode == 0, "/repo not clean"
ok = True
meta = {}
for name, f, subs, expect in M:
    p = os.path.join(REPO, f)
    src = open(p).read()
    new = src
    for old, rep in subs:
        if old not in new:
            print(name, "PATTERN NOT FOUND:", old[:60].replace("\n", "|")); ok = False; break
        new = new.replace(old, rep, 1)
    else:
        open(p, "w").write(new)
        t = sh("go build ./... && go test -vet=off -count=1 ./... 2>&1 | grep -v 'no test files' | grep -v '^ok'")
        diff = sh("git diff").stdout
        status = "tests-pass" if t.stdout.strip() == "" and t.returncode != 0 or t.stdout.strip()=="" else "TESTS-FAIL"
        if "FAIL" in t.stdout or "cannot" in t.stdout or t.stderr.strip():
            status = "TESTS-FAIL: " + (t.stdout + t.stderr)[:300]
        print(name, status)
        open("/verif/selftest/patches/%s.diff" % name, "w").write(diff)
        meta[name] = {"file": f, "expected_checks": expect, "suite": status}
    sh("git checkout -- .")
json.dump(meta, open("/verif/selftest/patches/meta.json", "w"), indent=1)
