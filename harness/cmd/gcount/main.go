package main

import (
	"fmt"
	"os"
	"strconv"
	"time"

	"verif/explore"
	"verif/grammar"
)

func main() {
	k, _ := strconv.Atoi(os.Args[1])
	var total int64
	for _, r := range grammar.Roots {
		if len(os.Args) > 2 && os.Args[2] != r.Name {
			continue
		}
		r := r
		t := time.Now()
		maxTok := 0
		st := explore.Explore(explore.Options{Space: r.Name, MaxDev: k, SplitLen: 1}, func(c *explore.Ctx) {
			s := grammar.Derive(c, r)
			if len(s.Src) > maxTok {
				maxTok = len(s.Src)
			}
			if len(os.Args) > 3 {
				fmt.Println(s.Text())
			}
		})
		fmt.Printf("%-24s k=%d sentences=%-9d maxtok~%d %.1fs\n", r.Name, k, st.Evaluations, maxTok, time.Since(t).Seconds())
		total += st.Evaluations
	}
	fmt.Println("total", total)
}
