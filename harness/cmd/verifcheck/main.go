// verifcheck runs one property check: verifcheck <Cxx> <quick|thorough> [--replay file]
package main

import (
	"fmt"
	"os"
	"strconv"

	"verif/checks"
	"verif/explore"
)

func main() {
	if len(os.Args) < 3 {
		fmt.Fprintln(os.Stderr, "usage: verifcheck <property> <quick|thorough> [--replay file]")
		os.Exit(2)
	}
	prop, tier := os.Args[1], os.Args[2]
	if prop == "C18obs" {
		k, _ := strconv.Atoi(tier)
		checks.C18obs(k)
		return
	}
	if tier != "quick" && tier != "thorough" {
		fmt.Fprintln(os.Stderr, "tier must be quick or thorough")
		os.Exit(2)
	}
	f, ok := checks.Registry[prop]
	if !ok {
		fmt.Fprintf(os.Stderr, "unknown property %s\n", prop)
		os.Exit(2)
	}
	defer func() {
		if r := recover(); r != nil {
			fmt.Fprintf(os.Stderr, "INTERNAL: %v\n", r)
			panic(r)
		}
	}()
	if len(os.Args) >= 5 && os.Args[3] == "--replay" {
		os.Exit(checks.Replay(prop, os.Args[4]))
	}
	run := explore.NewRun(prop, tier)
	f(run)
	os.Exit(run.Finish())
}
