// Package explore is the stateless, exhaustive explorer shared by every check.
//
// A check is a deterministic body func(*Ctx) that builds ONE case by calling
// Choose/ChooseFree and evaluates its oracle on the real implementation. The
// explorer enumerates every choice sequence of the body (depth-first, replaying
// prefixes), optionally bounded by the number of deviations (non-zero answers at
// costed choice points). Nothing is sampled: a space is either enumerated
// completely or the run says exhaustive=false.
package explore

import (
	"fmt"
	"hash/fnv"
	"os"
	"runtime"
	"sort"
	"sync"
	"sync/atomic"
	"time"
)

// InternalError is raised (as a panic) for harness bugs: non-deterministic
// bodies, out-of-range replay, and so on. It is never turned into a verdict.
type InternalError struct{ Msg string }

func (e *InternalError) Error() string { return "internal error: " + e.Msg }

func internalf(format string, a ...any) { panic(&InternalError{fmt.Sprintf(format, a...)}) }

// Ctx is handed to the body for one case.
type Ctx struct {
	prefix  []int
	choices []int
	ns      []int
	free    []bool
	cost    int

	w *worker
}

// Choose answers a costed choice point: alternative 0 is the default, any other
// answer counts as one deviation.
func (c *Ctx) Choose(n int) int { return c.choose(n, false) }

// ChooseFree answers a choice point that is always fully enumerated (no cost).
func (c *Ctx) ChooseFree(n int) int { return c.choose(n, true) }

// Bool is Choose(2) == 1.
func (c *Ctx) Bool() bool { return c.Choose(2) == 1 }

func (c *Ctx) choose(n int, free bool) int {
	if n <= 0 {
		internalf("Choose(%d)", n)
	}
	i := len(c.choices)
	v := 0
	if i < len(c.prefix) {
		v = c.prefix[i]
		if v >= n {
			internalf("replay diverged: choice %d = %d out of range %d (body is not deterministic)", i, v, n)
		}
	}
	c.choices = append(c.choices, v)
	c.ns = append(c.ns, n)
	c.free = append(c.free, free)
	if v != 0 && !free {
		c.cost++
	}
	return v
}

// Cost is the number of deviations taken so far in this case.
func (c *Ctx) Cost() int { return c.cost }

// Choices returns the choice sequence so far (do not retain).
func (c *Ctx) Choices() []int { return c.choices }

// Input records the input of the case about to be evaluated, so that the
// watchdog can name it if the implementation never returns.
func (c *Ctx) Input(s string) {
	c.w.cur.Store(&s)
}

// Outcome records a hash of the case's observation (for distinct-outcome counts).
func (c *Ctx) Outcome(h uint64) { c.w.addOutcome(h) }

// OutcomeStr hashes s and records it.
func (c *Ctx) OutcomeStr(s string) { c.w.addOutcome(Hash(s)) }

// Nontrivial records a distinct non-trivial case key.
func (c *Ctx) Nontrivial(h uint64) { c.w.addNontrivial(h) }

// Count increments a named counter (reported in evidence).
func (c *Ctx) Count(name string, n int64) { c.w.counters[name] += n }

// Sample offers a case description for the evidence sample list.
func (c *Ctx) Sample(s string) { c.w.sample(s) }

// Violation reports that this case violates the property. sig groups cases by
// root cause (never contains positions or line numbers); witness is the
// concrete failing input/history; detail is free text.
func (c *Ctx) Violation(sig, witness, detail string) {
	c.w.violation(c, sig, witness, detail)
}

// Hash is FNV-1a 64.
func Hash(s string) uint64 {
	h := fnv.New64a()
	h.Write([]byte(s))
	return h.Sum64()
}

// Violation is one reported failing case (minimal per signature).
type Violation struct {
	Sig     string
	Witness string
	Detail  string
	Cost    int
	Choices []int
	Space   string
	Count   int64
}

func better(a, b *Violation) bool {
	if a.Cost != b.Cost {
		return a.Cost < b.Cost
	}
	if len(a.Witness) != len(b.Witness) {
		return len(a.Witness) < len(b.Witness)
	}
	return a.Witness < b.Witness
}

const maxDistinct = 1 << 20

type worker struct {
	id         int
	cur        atomic.Pointer[string]
	progress   atomic.Int64
	evals      int64
	points     int64
	outcomes   map[uint64]struct{}
	nontrivial map[uint64]struct{}
	outSat     bool
	ntSat      bool
	counters   map[string]int64
	viol       map[string]*Violation
	samples    []string
	sampleNext int64
	space      string
	maxCost    int
}

func newWorker(id int, space string) *worker {
	return &worker{id: id, outcomes: map[uint64]struct{}{}, nontrivial: map[uint64]struct{}{},
		counters: map[string]int64{}, viol: map[string]*Violation{}, sampleNext: 1, space: space}
}

func (w *worker) addOutcome(h uint64) {
	if len(w.outcomes) >= maxDistinct {
		w.outSat = true
		return
	}
	w.outcomes[h] = struct{}{}
}

func (w *worker) addNontrivial(h uint64) {
	if len(w.nontrivial) >= maxDistinct {
		w.ntSat = true
		return
	}
	w.nontrivial[h] = struct{}{}
}

func (w *worker) sample(s string) {
	// first case and every 10^k-th case per worker
	if w.evals+1 >= w.sampleNext && len(w.samples) < 8 {
		w.samples = append(w.samples, s)
		w.sampleNext *= 10
	}
}

func (w *worker) violation(c *Ctx, sig, witness, detail string) {
	v := &Violation{Sig: sig, Witness: witness, Detail: detail, Cost: c.cost, Space: w.space,
		Choices: append([]int(nil), c.choices...), Count: 1}
	if old, ok := w.viol[sig]; ok {
		v.Count = old.Count + 1
		if !better(v, old) {
			old.Count = v.Count
			return
		}
	}
	w.viol[sig] = v
}

// Stats is the result of exploring one space.
type Stats struct {
	Space            string
	Evaluations      int64
	ChoicePoints     int64
	DistinctOutcomes int64
	DistinctNontriv  int64
	Saturated        bool // distinct counters hit their cap (counts are lower bounds)
	Exhaustive       bool
	Bound            string
	MaxDev           int
	Counters         map[string]int64
	Samples          []string
	Violations       map[string]*Violation
	WallS            float64
	outcomes         map[uint64]struct{}
	nontrivial       map[uint64]struct{}
}

// Options configures one exploration.
type Options struct {
	Space    string // name, for evidence
	Bound    string // human description of the bound
	MaxDev   int    // maximum number of deviations; <0 means unbounded (full product)
	Workers  int    // default: GOMAXPROCS
	SplitLen int    // prefixes of this length become work items (default 2)
	Deadline time.Time
	// HangIsViolation: report a case that does not return within HangAfter as a
	// violation with this signature prefix (C03); otherwise it is an internal error.
	HangSig   string
	HangAfter time.Duration
	// HangRecheck re-executes the suspected input alone (in a fresh goroutine); the case is
	// reported only if this does not return within 120 s either, so a starved worker is never
	// mistaken for a non-terminating call.
	HangRecheck func(input string)
	// StopAfter > 0: abandon the exploration once more than this many cases were run (used only
	// for counting the size of a space; the result then has Exhaustive=false).
	StopAfter int64
}

// Budget is a process-wide stop flag set when the internal deadline is hit.
var stopped atomic.Bool

// Explore enumerates every case of body within the options' bound.
func Explore(opt Options, body func(*Ctx)) *Stats {
	if opt.Workers <= 0 {
		opt.Workers = runtime.GOMAXPROCS(0)
	}
	if opt.SplitLen <= 0 {
		opt.SplitLen = 2
	}
	if opt.HangAfter == 0 {
		opt.HangAfter = 60 * time.Second
	}
	start := time.Now()
	items := make(chan []int, 4096)
	workers := make([]*worker, opt.Workers+1)
	for i := range workers {
		workers[i] = newWorker(i, opt.Space)
	}
	var incomplete atomic.Bool
	var ran atomic.Int64
	over := func() bool { return opt.StopAfter > 0 && ran.Load() > opt.StopAfter }
	var wg sync.WaitGroup
	done := make(chan struct{})

	// watchdog
	go func() {
		last := make([]int64, len(workers))
		since := make([]time.Time, len(workers))
		for i := range since {
			since[i] = time.Now()
		}
		t := time.NewTicker(500 * time.Millisecond)
		defer t.Stop()
		for {
			select {
			case <-done:
				return
			case now := <-t.C:
				if !opt.Deadline.IsZero() && now.After(opt.Deadline) {
					stopped.Store(true)
				}
				var ms runtime.MemStats
				for i, w := range workers {
					p := w.progress.Load()
					if p != last[i] {
						last[i], since[i] = p, now
						continue
					}
					cur := w.cur.Load()
					if cur != nil && now.Sub(since[i]) > opt.HangAfter {
						if opt.HangRecheck != nil {
							doneCh := make(chan struct{})
							in := *cur
							go func() {
								defer func() { recover(); close(doneCh) }()
								opt.HangRecheck(in)
							}()
							select {
							case <-doneCh:
								since[i] = time.Now() // the input terminates on its own: the worker is merely slow
								continue
							case <-time.After(120 * time.Second):
							}
						}
						hang(opt, *cur, fmt.Sprintf("no return after %s (and not within 120 s when re-run alone)", opt.HangAfter))
					}
				}
				runtime.ReadMemStats(&ms)
				if ms.HeapAlloc > 12<<30 {
					for _, w := range workers {
						if cur := w.cur.Load(); cur != nil {
							hang(opt, *cur, "heap exceeded 12 GiB (one of the in-flight cases)")
						}
					}
				}
			}
		}
	}()

	for i := 0; i < opt.Workers; i++ {
		w := workers[i]
		wg.Add(1)
		go func() {
			defer wg.Done()
			for prefix := range items {
				if stopped.Load() || over() {
					incomplete.Store(true)
					continue
				}
				if !exploreSeq(opt, w, body, prefix, &ran) {
					incomplete.Store(true)
				}
			}
		}()
	}
	// coordinator: DFS above the split length
	coord := workers[opt.Workers]
	var top func(prefix []int)
	top = func(prefix []int) {
		if len(prefix) >= opt.SplitLen {
			items <- prefix
			return
		}
		if stopped.Load() || over() {
			incomplete.Store(true)
			return
		}
		ran.Add(1)
		c := runOne(coord, body, prefix)
		for i := len(c.choices) - 1; i >= len(prefix); i-- {
			if !c.free[i] && opt.MaxDev >= 0 && c.cost+1 > opt.MaxDev {
				continue
			}
			for alt := 1; alt < c.ns[i]; alt++ {
				p := make([]int, i+1)
				copy(p, c.choices[:i])
				p[i] = alt
				top(p)
			}
		}
	}
	top(nil)
	close(items)
	wg.Wait()
	close(done)

	st := &Stats{Space: opt.Space, Bound: opt.Bound, MaxDev: opt.MaxDev, Counters: map[string]int64{},
		Violations: map[string]*Violation{}, outcomes: map[uint64]struct{}{}, nontrivial: map[uint64]struct{}{}}
	for _, w := range workers {
		st.Evaluations += w.evals
		st.ChoicePoints += w.points
		for h := range w.outcomes {
			st.outcomes[h] = struct{}{}
		}
		for h := range w.nontrivial {
			st.nontrivial[h] = struct{}{}
		}
		st.Saturated = st.Saturated || w.outSat || w.ntSat
		for k, v := range w.counters {
			st.Counters[k] += v
		}
		for sig, v := range w.viol {
			if old, ok := st.Violations[sig]; ok {
				n := old.Count + v.Count
				if better(v, old) {
					st.Violations[sig] = v
				}
				st.Violations[sig].Count = n
			} else {
				st.Violations[sig] = v
			}
		}
		st.Samples = append(st.Samples, w.samples...)
	}
	sort.Strings(st.Samples)
	if len(st.Samples) > 12 {
		// keep a spread
		step := len(st.Samples) / 12
		var s []string
		for i := 0; i < len(st.Samples) && len(s) < 12; i += step {
			s = append(s, st.Samples[i])
		}
		st.Samples = s
	}
	st.DistinctOutcomes = int64(len(st.outcomes))
	st.DistinctNontriv = int64(len(st.nontrivial))
	st.Exhaustive = !incomplete.Load()
	st.WallS = time.Since(start).Seconds()
	return st
}

func hang(opt Options, input, why string) {
	if opt.HangSig != "" {
		fmt.Printf("HANG space=%s input=%q %s\n", opt.Space, input, why)
		if HangHook != nil {
			HangHook(opt.HangSig, input, why)
		}
		os.Exit(1)
	}
	fmt.Fprintf(os.Stderr, "INTERNAL: case did not return: space=%s input=%q (%s)\n", opt.Space, input, why)
	os.Exit(2)
}

// HangHook is called (if set) before exiting on a hang that counts as violation.
var HangHook func(sig, input, why string)

func runOne(w *worker, body func(*Ctx), prefix []int) *Ctx {
	c := &Ctx{prefix: prefix, w: w}
	c.choices = make([]int, 0, 32)
	c.ns = make([]int, 0, 32)
	c.free = make([]bool, 0, 32)
	body(c)
	if len(c.choices) < len(prefix) {
		internalf("replay diverged: body asked %d choices, prefix has %d", len(c.choices), len(prefix))
	}
	w.cur.Store(nil)
	w.evals++
	w.points += int64(len(c.choices))
	w.progress.Add(1)
	if c.cost > w.maxCost {
		w.maxCost = c.cost
	}
	return c
}

// exploreSeq explores the whole subtree below prefix sequentially.
func exploreSeq(opt Options, w *worker, body func(*Ctx), prefix []int, ran *atomic.Int64) bool {
	type frame struct{ prefix []int }
	stack := [][]int{prefix}
	n := 0
	for len(stack) > 0 {
		p := stack[len(stack)-1]
		stack = stack[:len(stack)-1]
		n++
		if n&255 == 0 {
			if stopped.Load() || opt.StopAfter > 0 && ran.Add(256) > opt.StopAfter {
				return false
			}
		}
		c := runOne(w, body, p)
		if opt.MaxDev >= 0 && c.cost > opt.MaxDev {
			internalf("case exceeds deviation bound: %d > %d", c.cost, opt.MaxDev)
		}
		for i := len(p); i < len(c.choices); i++ {
			if !c.free[i] && opt.MaxDev >= 0 && c.cost+1 > opt.MaxDev {
				continue
			}
			for alt := c.ns[i] - 1; alt >= 1; alt-- {
				q := make([]int, i+1)
				copy(q, c.choices[:i])
				q[i] = alt
				stack = append(stack, q)
			}
		}
	}
	return true
}

// ReplayOne runs body once on the given choice sequence (for --replay and the
// determinism guard) and returns the violations it reported.
func ReplayOne(body func(*Ctx), choices []int) map[string]*Violation {
	w := newWorker(0, "replay")
	runOne(w, body, choices)
	return w.viol
}

// Try runs f and returns the recovered panic value and a stack listing (one
// function name per line, innermost first), if f panicked.
func Try(f func()) (pv any, stack string) {
	defer func() {
		if r := recover(); r != nil {
			if ie, ok := r.(*InternalError); ok {
				panic(ie)
			}
			pv = r
			var pcs [64]uintptr
			n := runtime.Callers(2, pcs[:])
			fr := runtime.CallersFrames(pcs[:n])
			var b []byte
			for {
				f, more := fr.Next()
				b = append(b, f.Function...)
				b = append(b, "()\n"...)
				if !more {
					break
				}
			}
			stack = string(b)
		}
	}()
	f()
	return nil, ""
}
