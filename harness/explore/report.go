package explore

import (
	"bufio"
	"crypto/sha1"
	"encoding/hex"
	"encoding/json"
	"fmt"
	"os"
	"path/filepath"
	"regexp"
	"sort"
	"strconv"
	"strings"
	"time"
)

// Run aggregates the explorations of one check invocation and produces the
// evidence file, replay files, KNOWN-FINDING / VIOLATION lines and exit code.
type Run struct {
	Property string
	Tier     string
	Level    string // exploration | model_checking
	Seed     int
	Rule     string
	Assume   []string
	VerifDir string
	Start    time.Time
	Deadline time.Time

	// replay mode: only the recorded space is visited, with the recorded choice sequence
	ReplaySpace   string
	ReplayChoices []int
	ReplaySig     string
	replayHit     bool
	replayFound   bool

	spaces []*Stats
	extra  map[string]any
	extraV []*Violation
	// model-checking counters
	States, Transitions, Traces int64
}

var outDir string

// NewRun creates a run; tier is "quick" or "thorough".
func NewRun(property, tier string) *Run {
	seed, _ := strconv.Atoi(os.Getenv("VERIF_SEED"))
	dir := os.Getenv("VERIF_DIR")
	if dir == "" {
		dir = "/verif"
	}
	outDir = os.Getenv("VERIF_OUT") // scratch output directory for evidence/replays when evaluating seeded changes
	r := &Run{Property: property, Tier: tier, Level: "exploration", Seed: seed, VerifDir: dir, Start: time.Now(), extra: map[string]any{}}
	budget := 25 * time.Minute
	if tier == "thorough" {
		budget = 6 * time.Hour
	}
	if s := os.Getenv("VERIF_BUDGET_S"); s != "" {
		if n, err := strconv.Atoi(s); err == nil {
			budget = time.Duration(n) * time.Second
		}
	}
	r.Deadline = r.Start.Add(budget)
	return r
}

// Explore runs one space under this run's deadline and records its stats.
func (r *Run) Explore(opt Options, body func(*Ctx)) *Stats {
	if r.Replaying() {
		if opt.Space == r.ReplaySpace && !r.replayHit {
			r.replayHit = true
			for sig, v := range ReplayOne(body, r.ReplayChoices) {
				fmt.Printf("replay: %s\n  witness: %q\n  detail:  %s\n", sig, v.Witness, firstLines(v.Detail, 12))
				if sig == r.ReplaySig {
					r.replayFound = true
				}
			}
		}
		return &Stats{Space: opt.Space, Exhaustive: true, Violations: map[string]*Violation{}, Counters: map[string]int64{}, outcomes: map[uint64]struct{}{}, nontrivial: map[uint64]struct{}{}}
	}
	// development aid: VERIF_ONLY=<regexp> runs only the spaces whose name matches (never used by registered commands)
	if pat := os.Getenv("VERIF_ONLY"); pat != "" {
		if ok, _ := regexp.MatchString(pat, opt.Space); !ok {
			return &Stats{Space: opt.Space, Exhaustive: true, Violations: map[string]*Violation{}, Counters: map[string]int64{}, outcomes: map[uint64]struct{}{}, nontrivial: map[uint64]struct{}{}}
		}
	}
	opt.Deadline = r.Deadline
	st := Explore(opt, body)
	r.spaces = append(r.spaces, st)
	fmt.Printf("space %-28s evals=%-11d distinct_outcomes=%-9d nontrivial=%-9d exhaustive=%v violations=%d wall=%.1fs bound=%s\n",
		st.Space, st.Evaluations, st.DistinctOutcomes, st.DistinctNontriv, st.Exhaustive, len(st.Violations), st.WallS, st.Bound)
	return st
}

// Extra adds a key to the evidence coverage object.
func (r *Run) Extra(k string, v any) { r.extra[k] = v }

// AddViolation records a violation found outside Explore (e.g. program comparison).
func (r *Run) AddViolation(sig, witness, detail string) {
	r.extraV = append(r.extraV, &Violation{Sig: sig, Witness: witness, Detail: detail, Space: "direct", Count: 1})
}

type knownFinding struct {
	Property  string `json:"property"`
	Signature string `json:"signature"`
	Witness   string `json:"witness"`
	Note      string `json:"note"`
	Status    string `json:"status"` // "open" (default) or "fixed"
	Commit    string `json:"commit"`
}

func (r *Run) loadKnown() map[string]*knownFinding {
	m := map[string]*knownFinding{}
	f, err := os.Open(filepath.Join(r.VerifDir, "known_findings.jsonl"))
	if err != nil {
		return m
	}
	defer f.Close()
	sc := bufio.NewScanner(f)
	sc.Buffer(make([]byte, 1<<20), 1<<20)
	for sc.Scan() {
		line := strings.TrimSpace(sc.Text())
		if line == "" || strings.HasPrefix(line, "#") || strings.HasPrefix(line, "fixed:") {
			continue
		}
		var k knownFinding
		if err := json.Unmarshal([]byte(line), &k); err != nil {
			fmt.Fprintf(os.Stderr, "INTERNAL: bad known_findings line: %v\n", err)
			os.Exit(2)
		}
		if k.Property == r.Property && k.Status != "fixed" {
			m[k.Signature] = &k
		}
	}
	return m
}

// Finish writes evidence and replays, prints the verdict lines and returns the exit code.
func (r *Run) Finish() int {
	all := map[string]*Violation{}
	var evals, distinct, nontriv int64
	exhaustive := true
	var samples []any
	spaceInfo := []map[string]any{}
	counters := map[string]int64{}
	outU := map[uint64]struct{}{}
	ntU := map[uint64]struct{}{}
	sat := false
	for _, st := range r.spaces {
		evals += st.Evaluations
		for h := range st.outcomes {
			outU[h] = struct{}{}
		}
		for h := range st.nontrivial {
			ntU[h] = struct{}{}
		}
		sat = sat || st.Saturated
		exhaustive = exhaustive && st.Exhaustive
		for _, s := range st.Samples {
			if len(samples) < 40 {
				samples = append(samples, st.Space+": "+s)
			}
		}
		for k, v := range st.Counters {
			counters[k] += v
		}
		spaceInfo = append(spaceInfo, map[string]any{"space": st.Space, "bound": st.Bound, "evaluations": st.Evaluations,
			"choice_points": st.ChoicePoints, "distinct_outcomes": st.DistinctOutcomes, "distinct_nontrivial": st.DistinctNontriv,
			"exhaustive": st.Exhaustive, "wall_s": st.WallS, "violation_signatures": len(st.Violations)})
		for sig, v := range st.Violations {
			if old, ok := all[sig]; ok {
				n := old.Count + v.Count
				if better(v, old) {
					all[sig] = v
				}
				all[sig].Count = n
			} else {
				all[sig] = v
			}
		}
	}
	for _, v := range r.extraV {
		if _, ok := all[v.Sig]; !ok {
			all[v.Sig] = v
		}
	}
	distinct = int64(len(outU))
	nontriv = int64(len(ntU))

	known := r.loadKnown()
	sigs := make([]string, 0, len(all))
	for s := range all {
		sigs = append(sigs, s)
	}
	sort.Strings(sigs)
	nViol := 0
	nKnown := 0
	replayDir := filepath.Join(r.outBase(), "replays", r.Property)
	var vlist []map[string]any
	for _, sig := range sigs {
		v := all[sig]
		if k, ok := known[sig]; ok {
			nKnown++
			fmt.Printf("KNOWN-FINDING: property=%s %s witness=%q cases=%d (%s)\n", r.Property, sig, v.Witness, v.Count, k.Note)
			vlist = append(vlist, map[string]any{"signature": sig, "witness": v.Witness, "known": true, "cases": v.Count})
			continue
		}
		nViol++
		os.MkdirAll(replayDir, 0o755)
		sum := sha1.Sum([]byte(sig))
		path := filepath.Join(replayDir, hex.EncodeToString(sum[:6])+".json")
		b, _ := json.MarshalIndent(map[string]any{"property": r.Property, "signature": sig, "witness": v.Witness,
			"detail": v.Detail, "space": v.Space, "choices": v.Choices, "deviations": v.Cost, "cases": v.Count, "tier": r.Tier}, "", " ")
		os.WriteFile(path, b, 0o644)
		fmt.Printf("VIOLATION property=%s replay=%s\n", r.Property, path)
		fmt.Printf("  signature: %s\n  witness:   %q\n  detail:    %s\n  cases:     %d\n", sig, v.Witness, firstLines(v.Detail, 12), v.Count)
		vlist = append(vlist, map[string]any{"signature": sig, "witness": v.Witness, "known": false, "cases": v.Count, "replay": path})
	}

	if len(samples) == 0 {
		samples = append(samples, "(no samples)")
	}
	cov := map[string]any{
		"evaluations":         evals,
		"distinct_nontrivial": nontriv,
		"distinct_outcomes":   distinct,
		"distinct_saturated":  sat,
		"rule":                r.Rule,
		"samples":             samples,
		"exhaustive":          exhaustive,
		"spaces":              spaceInfo,
		"counters":            counters,
		"known_findings_seen": nKnown,
		"violation_list":      vlist,
	}
	if r.Level == "model_checking" {
		cov["states"] = r.States
		cov["transitions"] = r.Transitions
		cov["traces_validated_against_impl"] = r.Traces
	}
	for k, v := range r.extra {
		cov[k] = v
	}
	if r.Assume == nil {
		r.Assume = []string{}
	}
	ev := map[string]any{
		"property_id": r.Property,
		"tier":        r.Tier,
		"seed":        r.Seed,
		"level":       r.Level,
		"coverage":    cov,
		"assumptions": r.Assume,
		"wall_s":      time.Since(r.Start).Seconds(),
		"violations":  nViol,
	}
	b, _ := json.MarshalIndent(ev, "", " ")
	os.MkdirAll(filepath.Join(r.outBase(), "evidence"), 0o755)
	if err := os.WriteFile(filepath.Join(r.outBase(), "evidence", r.Property+".json"), b, 0o644); err != nil {
		fmt.Fprintf(os.Stderr, "INTERNAL: cannot write evidence: %v\n", err)
		return 2
	}
	fmt.Printf("RESULT property=%s tier=%s evaluations=%d distinct_outcomes=%d distinct_nontrivial=%d exhaustive=%v violations=%d known=%d wall=%.1fs\n",
		r.Property, r.Tier, evals, distinct, nontriv, exhaustive, nViol, nKnown, time.Since(r.Start).Seconds())
	if nViol > 0 {
		return 1
	}
	return 0
}

func firstLines(s string, n int) string {
	lines := strings.Split(s, "\n")
	if len(lines) > n {
		lines = append(lines[:n], "...")
	}
	return strings.Join(lines, "\n             ")
}

func (r *Run) outBase() string {
	if outDir != "" {
		return outDir
	}
	return r.VerifDir
}

// Replaying reports whether this run only replays one recorded case.
func (r *Run) Replaying() bool { return r.ReplaySpace != "" }

// FinishReplay prints the verdict of a replay and returns the exit code.
func (r *Run) FinishReplay(path string) int {
	if !r.replayHit {
		fmt.Printf("replay: space %q not found in this check\n", r.ReplaySpace)
		return 2
	}
	if r.replayFound {
		fmt.Printf("VIOLATION property=%s replay=%s\n", r.Property, path)
		return 1
	}
	fmt.Printf("replay: signature %q not reproduced (the case no longer violates the property)\n", r.ReplaySig)
	return 0
}
