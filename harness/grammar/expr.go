package grammar

// Expressions, types. Written from "Operators", "Conditional expressions",
// "Expression subqueries", "Data types", "Lexical structure", "Functions
// (calling rules, named arguments, lambdas)" of the Spanner GoogleSQL reference.

const maxDepth = 3

func (g *G) nest(f func()) {
	g.depth++
	f()
	g.depth--
}

// Expr is the entry of the expression grammar.
func (g *G) Expr() {
	if g.depth >= maxDepth {
		g.num("1")
		return
	}
	g.nest(g.orExpr)
}

func (g *G) orExpr() {
	g.andExpr()
	for i := 0; i < 2 && g.opt(); i++ {
		g.kw("OR")
		g.andExpr()
	}
}

func (g *G) andExpr() {
	g.notExpr()
	for i := 0; i < 2 && g.opt(); i++ {
		g.kw("AND")
		g.notExpr()
	}
}

func (g *G) notExpr() {
	for i := 0; i < 2 && g.opt(); i++ {
		g.kw("NOT")
	}
	g.cmpExpr()
}

func (g *G) cmpExpr() {
	g.bitOr()
	switch g.alt(14) {
	case 0:
	case 1:
		g.p("=")
		g.bitOr()
	case 2:
		g.p("<")
		g.bitOr()
	case 3:
		g.p(">")
		g.bitOr()
	case 4:
		g.p("<=")
		g.bitOr()
	case 5:
		g.p(">=")
		g.bitOr()
	case 6:
		g.p("!=")
		g.bitOr()
	case 7:
		// "<>" is canonicalised to "!="
		g.srcOnly(func() { g.p("<>") })
		g.canonOnly(func() { g.p("!=") })
		g.bitOr()
	case 8:
		if g.opt() {
			g.kw("NOT")
		}
		g.kw("LIKE")
		g.bitOr()
	case 9:
		if g.opt() {
			g.kw("NOT")
		}
		g.kw("IN")
		switch g.alt(3) {
		case 0:
			g.p("(")
			g.list(g.Expr)
			g.p(")")
		case 1:
			g.kw("UNNEST")
			g.p("(")
			g.Expr()
			g.p(")")
		case 2:
			g.p("(")
			g.Query()
			g.p(")")
		}
	case 10:
		if g.opt() {
			g.kw("NOT")
		}
		g.kw("BETWEEN")
		g.bitOr()
		g.kw("AND")
		g.bitOr()
	case 11:
		g.kw("IS")
		if g.opt() {
			g.kw("NOT")
		}
		g.kw("NULL")
	case 12:
		g.kw("IS")
		if g.opt() {
			g.kw("NOT")
		}
		g.kw("TRUE")
	case 13:
		g.kw("IS")
		if g.opt() {
			g.kw("NOT")
		}
		g.kw("FALSE")
	}
}

func (g *G) binLevel(next func(), ops ...string) {
	next()
	for i := 0; i < 2; i++ {
		k := g.alt(len(ops) + 1)
		if k == 0 {
			return
		}
		g.p(ops[k-1])
		next()
	}
}

func (g *G) bitOr()  { g.binLevel(g.bitXor, "|") }
func (g *G) bitXor() { g.binLevel(g.bitAnd, "^") }
func (g *G) bitAnd() { g.binLevel(g.shift, "&") }
func (g *G) shift()  { g.binLevel(g.addSub, "<<", ">>") }
func (g *G) addSub() { g.binLevel(g.mulDiv, "+", "-") }
func (g *G) mulDiv() { g.binLevel(g.unary, "*", "/", "||") }

func (g *G) unary() {
	for i := 0; i < 2; i++ {
		k := g.alt(4)
		if k == 0 {
			break
		}
		g.p([]string{"-", "+", "~"}[k-1])
	}
	g.postfix()
}

func (g *G) postfix() {
	accessible := g.primary()
	for i := 0; i < 2; i++ {
		n := 6
		if accessible {
			n = 7 // ".field" needs a parenthesised / call / path / parameter / subscript operand
		}
		k := g.alt(n)
		switch k {
		case 0:
			return
		case 1:
			g.p("[")
			g.Expr()
			g.p("]")
		case 2, 3, 4, 5:
			g.p("[")
			g.pk([]string{"OFFSET", "ORDINAL", "SAFE_OFFSET", "SAFE_ORDINAL"}[k-2])
			g.p("(")
			g.Expr()
			g.p(")")
			g.p("]")
		case 6:
			g.p(".")
			if g.afterIdentLikeBeforeDot() && g.opt() {
				// directly after "." that follows an identifier, parameter, ")" or "]", a reserved keyword is a field name
				g.emit(Tok{Text: "select", Class: ID, Val: "select"})
			} else {
				g.id()
			}
		}
		accessible = true
	}
}

// primary emits a primary expression and reports whether ".field" may follow it.
func (g *G) primary() bool {
	switch g.alt(25) {
	case 0:
		g.num("1")
	case 1:
		g.path()
		return true
	case 2:
		g.str()
	case 3:
		g.param()
		return true
	case 4:
		g.kw("NULL")
	case 5:
		g.kw([]string{"TRUE", "FALSE"}[g.alt(2)])
	case 6:
		f := []string{"1.5", ".5", "1.", "1e3", "1.5E-3", "1E+2", "12"}[g.alt(7)]
		if f == ".5" && g.afterIdentLike() {
			f = "0.5" // ".5" directly after an identifier-like token is a field access by the lexical rules
		}
		g.num(f)
	case 7:
		g.num([]string{"0x1F", "0Xab"}[g.alt(2)])
	case 8:
		g.bytesLit()
	case 9:
		g.p("(")
		g.Expr()
		g.p(")")
		return true
	case 10:
		g.call()
		return true
	case 11:
		g.pk("COUNT")
		g.p("(", "*", ")")
	case 12:
		if g.opt() {
			g.pk("SAFE_CAST")
		} else {
			g.kw("CAST")
		}
		g.p("(")
		g.Expr()
		g.kw("AS")
		g.Type()
		g.p(")")
		return true
	case 13:
		g.kw("CASE")
		if g.opt() {
			g.Expr()
		}
		n := 1 + g.alt(2)
		for i := 0; i < n; i++ {
			g.kw("WHEN")
			g.Expr()
			g.kw("THEN")
			g.Expr()
		}
		if g.opt() {
			g.kw("ELSE")
			g.Expr()
		}
		g.kw("END")
		return true
	case 14:
		g.kw("IF")
		g.p("(")
		g.Expr()
		g.p(",")
		g.Expr()
		g.p(",")
		g.Expr()
		g.p(")")
		return true
	case 15:
		g.kw("EXTRACT")
		g.p("(")
		// the date part is stored as an identifier: its spelling is significant
		part := []string{"DAY", "YEAR", "DATE"}[g.alt(3)]
		g.emit(Tok{Text: part, Class: ID, Val: part})
		g.kw("FROM")
		g.Expr()
		if g.opt() {
			g.kw("AT")
			g.pk("TIME", "ZONE")
			g.Expr()
		}
		g.p(")")
		return true
	case 16:
		// array literal: [..], ARRAY[..], ARRAY<T>[..]
		switch g.alt(3) {
		case 0:
		case 1:
			g.kw("ARRAY")
		case 2:
			g.kw("ARRAY")
			g.p("<")
			g.Type()
			g.p(">")
		}
		g.p("[")
		g.list0(g.Expr)
		g.p("]")
		return true
	case 17:
		switch g.alt(3) {
		case 0:
			// typeless struct
			g.kw("STRUCT")
			g.p("(")
			g.list0(func() {
				g.Expr()
				if g.opt() {
					g.kw("AS")
					g.id()
				}
			})
			g.p(")")
		case 1:
			// typed struct
			g.kw("STRUCT")
			g.p("<")
			g.list(g.structField)
			g.p(">")
			g.p("(")
			g.list0(g.Expr)
			g.p(")")
		case 2:
			// tuple
			g.p("(")
			g.Expr()
			g.p(",")
			g.list(g.Expr)
			g.p(")")
		}
		return true
	case 18:
		switch g.alt(3) {
		case 0:
			g.p("(")
			g.Query()
			g.p(")")
		case 1:
			g.kw("ARRAY")
			g.p("(")
			g.Query()
			g.p(")")
		case 2:
			g.kw("EXISTS")
			g.p("(")
			g.Query()
			g.p(")")
		}
		return true
	case 19:
		g.pk([]string{"DATE", "TIMESTAMP", "NUMERIC", "JSON"}[g.alt(4)])
		g.str()
	case 20:
		// NEW constructor
		g.kw("NEW")
		g.path()
		if g.opt() {
			g.braced()
		} else {
			g.p("(")
			g.list0(func() {
				g.Expr()
				if g.opt() {
					g.kw("AS")
					g.id()
				}
			})
			g.p(")")
		}
		return true
	case 21:
		// WITH expression
		g.kw("WITH")
		g.p("(")
		n := 1 + g.alt(2)
		for i := 0; i < n; i++ {
			g.id()
			g.kw("AS")
			g.Expr()
			g.p(",")
		}
		g.Expr()
		g.p(")")
		return true
	case 22:
		g.pk("REPLACE_FIELDS")
		g.p("(")
		g.Expr()
		g.p(",")
		g.list(func() {
			g.Expr()
			g.kw("AS")
			g.path()
		})
		g.p(")")
		return true
	case 23:
		// hex / decimal literal in other spellings plus parameters named like keywords
		g.emit(Tok{Text: "@select", Class: PARAM, Val: "select"})
		return true
	case 24:
		// identifier written as a quoted reserved word followed by a subscript
		g.emit(Tok{Text: "`if`", Class: ID, Val: "if"})
		return true
	}
	return false
}

// braced emits a braced constructor body { f: e, g { ... } } with optional commas.
func (g *G) braced() {
	g.p("{")
	n := []int{1, 0, 2}[g.alt(3)]
	for i := 0; i < n; i++ {
		if i > 0 {
			// the comma between fields is optional; the canonical form has it
			if g.opt() {
				g.canonOnly(func() { g.p(",") })
			} else {
				g.p(",")
			}
		}
		g.id()
		switch {
		case g.depth >= maxDepth:
			g.p(":")
			g.Expr()
		default:
			switch g.alt(3) {
			case 0:
				g.p(":")
				g.Expr()
			case 1:
				g.nest(g.braced) // sub-message without colon
			case 2:
				g.p(":") // sub-message with colon
				g.nest(g.braced)
			}
		}
	}
	g.p("}")
}

func (g *G) call() {
	g.path()
	g.p("(")
	switch g.alt(9) {
	case 0:
		g.list0(g.Expr)
	case 1:
		g.kw("DISTINCT")
		g.list(g.Expr)
	case 2:
		// positional then named arguments
		g.Expr()
		g.p(",")
		g.list(g.namedArg)
	case 3:
		g.list(g.namedArg)
	case 4:
		g.Expr()
		g.p(",")
		g.kw("INTERVAL")
		g.Expr()
		unit := []string{"DAY", "HOUR"}[g.alt(2)]
		g.emit(Tok{Text: unit, Class: ID, Val: unit})
	case 5:
		g.pk("SEQUENCE")
		g.id()
	case 6:
		// lambda arguments
		g.Expr()
		g.p(",")
		if g.opt() {
			g.p("(")
			g.list(g.plainID)
			g.p(")")
		} else {
			g.plainID()
		}
		g.p("->")
		g.Expr()
	case 7:
		g.Expr()
		g.kw([]string{"IGNORE", "RESPECT"}[g.alt(2)])
		g.kw("NULLS")
	case 8:
		g.Expr()
		g.kw("HAVING")
		g.pk([]string{"MAX", "MIN"}[g.alt(2)])
		g.Expr()
	}
	g.p(")")
	if g.opt() {
		g.hint()
	}
}

func (g *G) namedArg() {
	g.id()
	g.p("=>")
	g.Expr()
}

// hint: @{k=v, ...}
func (g *G) hint() {
	g.p("@", "{")
	g.list(func() {
		g.path()
		g.p("=")
		g.Expr()
	})
	g.p("}")
}

// Type is the type grammar (CAST, ARRAY<T>, struct fields ...).
func (g *G) Type() {
	if g.depth >= maxDepth {
		g.pk("INT64")
		return
	}
	g.nest(g.typ)
}

var simpleTypes = []string{"INT64", "BOOL", "FLOAT32", "FLOAT64", "DATE", "TIMESTAMP", "NUMERIC", "STRING", "BYTES", "JSON", "TOKENLIST"}

func (g *G) typ() {
	switch g.alt(6) {
	case 5:
		// a simple type name written as a quoted identifier (type names are matched on the decoded name)
		g.srcOnly(func() { g.emit(Tok{Text: "`INT64`", Class: ID, Val: "INT64"}) })
		g.canonOnly(func() { g.pk("INT64") })
	case 0:
		g.pk("INT64")
	case 1:
		g.pk(simpleTypes[1+g.alt(len(simpleTypes)-1)])
	case 2:
		g.kw("ARRAY")
		g.p("<")
		g.Type()
		g.p(">")
	case 3:
		g.kw("STRUCT")
		if g.opt() {
			// empty struct, spelled "<>" or "< >"
			if g.opt() {
				g.p("<", ">")
			} else {
				g.p("<>")
			}
			return
		}
		g.p("<")
		g.list(g.structField)
		g.p(">")
	case 4:
		// named type (proto / enum path)
		g.path()
	}
}

func (g *G) structField() {
	if g.opt() {
		g.id()
	}
	g.Type()
}

func init() {
	root("expr", "expr", func(g *G) { g.Expr() })
	root("type", "type", func(g *G) { g.Type() })
}

// afterIdentLikeBeforeDot: the "." just emitted follows an identifier-like token.
func (g *G) afterIdentLikeBeforeDot() bool {
	n := len(g.src)
	if n < 2 || g.src[n-1].Text != "." {
		return false
	}
	save := g.src
	g.src = g.src[:n-1]
	ok := g.afterIdentLike()
	g.src = save
	return ok
}

// afterIdentLike reports whether the previous source token is identifier-like
// for the lexer's dot rule (identifier, parameter, ")" or "]").
func (g *G) afterIdentLike() bool {
	if len(g.src) == 0 {
		return false
	}
	t := g.src[len(g.src)-1]
	return t.Class == ID || t.Class == PKW || t.Class == PARAM || t.Text == ")" || t.Text == "]"
}
