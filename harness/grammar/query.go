package grammar

// Queries and table expressions. Written from "Query syntax" (SELECT, FROM,
// joins, TABLESAMPLE, UNNEST, set operators, WITH, ORDER BY, LIMIT/OFFSET, FOR
// UPDATE, table-valued functions, hints) and "Pipe query syntax" (the two pipe
// operators memefish implements) of the Spanner GoogleSQL reference.

// Query is a query used inside parentheses (sub-query of an expression, table
// expression, CTE body ...). memefish does not implement a WITH-prefixed,
// parenthesised-first or FROM-first query directly inside expression or table
// parentheses, nor FOR UPDATE there (see EXCLUDED.md), so those are top-level only.
func (g *G) Query() {
	if g.depth >= maxDepth {
		g.kw("SELECT")
		g.num("1")
		return
	}
	g.nest(func() { g.query(false) })
}

// TopQuery is a query at statement level.
func (g *G) TopQuery() {
	g.nest(func() { g.query(true) })
}

func (g *G) query(top bool) {
	if top && g.opt() {
		g.kw("WITH")
		g.list(func() {
			g.id()
			g.kw("AS")
			g.p("(")
			g.Query()
			g.p(")")
		})
	}
	bareFrom, needSuffix := g.setExpr(top)
	wantOrder, wantLimit := false, false
	if needSuffix {
		// a parenthesised first operand inside parentheses is a sub-query only when a set operator,
		// ORDER BY or LIMIT follows it: force one of the latter two here
		if g.opt() {
			wantOrder = true
		} else {
			wantLimit = true
		}
	}
	if !bareFrom && (wantOrder || !needSuffix && g.opt()) {
		g.kw("ORDER", "BY")
		g.list(func() {
			g.Expr()
			if g.opt() {
				g.kw("COLLATE")
				if g.opt() {
					g.param()
				} else {
					g.strTok(`"und:ci"`, "und:ci")
				}
			}
			switch g.alt(3) {
			case 1:
				g.kw("ASC")
			case 2:
				g.kw("DESC")
			}
		})
	}
	if !bareFrom && (wantLimit || !needSuffix && g.opt()) {
		g.kw("LIMIT")
		g.intValue()
		if g.opt() {
			g.pk("OFFSET")
			g.intValue()
		}
	}
	if top && g.opt() {
		g.kw("FOR")
		g.pk("UPDATE")
	}
	for i := 0; i < 2 && g.opt(); i++ {
		g.pipeOp()
	}
}

// intValue: integer literal, parameter, or CAST(... AS INT64)
func (g *G) intValue() {
	switch g.alt(4) {
	case 0:
		g.num("1")
	case 1:
		g.param()
	case 2:
		g.kw("CAST")
		g.p("(")
		if g.opt() {
			g.param()
		} else {
			g.num("1")
		}
		g.kw("AS")
		g.pk("INT64")
		g.p(")")
	case 3:
		g.num("0x10")
	}
}

func (g *G) pipeOp() {
	g.p("|>")
	if g.opt() {
		g.kw("WHERE")
		g.Expr()
		return
	}
	g.kw("SELECT")
	g.selectBody()
}

// setExpr reports whether it emitted a bare FROM query (ORDER BY / LIMIT must not follow it directly:
// "ORDER BY not supported after FROM query; use |> ORDER BY or parentheses").
func (g *G) setExpr(top bool) (bareFrom, needSuffix bool) {
	parenFirst := false
	if top {
		bareFrom = g.simpleQuery()
	} else if g.opt() {
		g.p("(")
		g.Query()
		g.p(")")
		parenFirst = true
	} else {
		g.selectStmt()
	}
	if bareFrom {
		return // a FROM query is stand-alone: only pipe operators may follow it
	}
	k := g.alt(4)
	if k == 0 {
		return false, parenFirst
	}
	op := []string{"UNION", "INTERSECT", "EXCEPT"}[k-1]
	q := []string{"ALL", "DISTINCT"}[g.alt(2)]
	n := 1 + g.alt(2)
	for i := 0; i < n; i++ {
		g.kw(op, q)
		if g.opt() {
			g.p("(")
			g.Query()
			g.p(")")
		} else {
			g.selectStmt()
		}
	}
	return
}

func (g *G) simpleQuery() (bareFrom bool) {
	switch g.alt(3) {
	case 0:
		g.selectStmt()
	case 1:
		g.p("(")
		g.Query()
		g.p(")")
	case 2:
		// FROM-first query
		g.kw("FROM")
		g.tableExpr()
		return true
	}
	return false
}

func (g *G) selectStmt() {
	g.kw("SELECT")
	g.selectBody()
	if g.opt() {
		// memefish implements the trailing comma of a select list before FROM and at the end of the
		// statement only (EXCLUDED.md); the end-of-statement form is exercised by C11
		if g.opt() {
			g.srcOnly(func() { g.p(",") })
		}
		g.kw("FROM")
		g.tableExpr()
	}
	if g.opt() {
		g.kw("WHERE")
		g.Expr()
	}
	if g.opt() {
		g.kw("GROUP", "BY")
		g.list(g.Expr)
	}
	if g.opt() {
		g.kw("HAVING")
		g.Expr()
	}
}

// selectBody: [ALL|DISTINCT] [AS STRUCT|VALUE|type] items
func (g *G) selectBody() {
	switch g.alt(3) {
	case 1:
		g.kw("ALL")
	case 2:
		g.kw("DISTINCT")
	}
	switch g.alt(4) {
	case 1:
		g.kw("AS", "STRUCT")
	case 2:
		g.kw("AS")
		g.pk("VALUE")
	case 3:
		g.kw("AS")
		g.path()
	}
	g.list(g.selectItem)
}

func (g *G) selectItem() {
	switch g.alt(6) {
	case 0:
		g.Expr()
	case 1:
		g.Expr()
		g.kw("AS")
		g.id()
	case 2:
		g.Expr()
		g.id() // alias without AS
	case 3:
		g.p("*")
		g.starModifiers()
	case 4:
		g.path()
		g.p(".", "*")
		g.starModifiers()
	case 5:
		// expression .* on a call / subscript
		g.plainID()
		g.p("(", ")", ".", "*")
	}
}

func (g *G) starModifiers() {
	if g.opt() {
		g.kw("EXCEPT")
		g.p("(")
		g.idList()
		g.p(")")
	}
	if g.opt() {
		g.pk("REPLACE")
		g.p("(")
		g.list(func() {
			g.Expr()
			g.kw("AS")
			g.id()
		})
		g.p(")")
	}
}

// tableExpr: a table primary followed by joins.
func (g *G) tableExpr() {
	g.tablePrimary()
	for i := 0; i < 2; i++ {
		k := g.alt(12)
		if k == 0 {
			return
		}
		cond := true
		switch k {
		case 1:
			g.p(",")
			cond = false
		case 2:
			g.kw("CROSS", "JOIN")
			cond = false
		case 3:
			// plain JOIN is INNER JOIN
			g.canonOnly(func() { g.kw("INNER") })
			g.joinMethod()
			g.kw("JOIN")
		case 4:
			g.kw("INNER")
			g.joinMethod()
			g.kw("JOIN")
		case 5:
			g.kw("LEFT")
			g.canonOnly(func() { g.kw("OUTER") })
			g.joinMethod()
			g.kw("JOIN")
		case 6:
			g.kw("LEFT", "OUTER")
			g.joinMethod()
			g.kw("JOIN")
		case 7:
			g.kw("RIGHT")
			g.canonOnly(func() { g.kw("OUTER") })
			g.joinMethod()
			g.kw("JOIN")
		case 8:
			g.kw("RIGHT", "OUTER")
			g.joinMethod()
			g.kw("JOIN")
		case 9:
			g.kw("FULL")
			g.canonOnly(func() { g.kw("OUTER") })
			g.joinMethod()
			g.kw("JOIN")
		case 10:
			g.kw("FULL", "OUTER")
			g.joinMethod()
			g.kw("JOIN")
		case 11:
			g.kw("CROSS")
			g.joinMethod()
			g.kw("JOIN")
			cond = false
		}
		if k != 1 && g.opt() {
			g.hint()
		}
		g.tablePrimary()
		if cond {
			if g.opt() {
				g.kw("USING")
				g.p("(")
				g.idList()
				g.p(")")
			} else {
				g.kw("ON")
				g.Expr()
			}
		}
	}
}

func (g *G) joinMethod() {
	switch g.alt(3) {
	case 1:
		g.kw("HASH")
	case 2:
		g.kw("LOOKUP")
	}
}

func (g *G) alias() {
	switch g.alt(3) {
	case 1:
		g.kw("AS")
		g.id()
	case 2:
		g.id()
	}
}

func (g *G) tableSample() {
	if !g.opt() {
		return
	}
	g.kw("TABLESAMPLE")
	g.pk([]string{"BERNOULLI", "RESERVOIR"}[g.alt(2)])
	g.p("(")
	switch g.alt(4) {
	case 0:
		g.num("1")
	case 1:
		g.num("1.5")
	case 2:
		g.param()
	case 3:
		g.kw("CAST")
		g.p("(")
		switch g.alt(3) {
		case 0:
			g.num("1")
		case 1:
			g.num("1.5")
		case 2:
			g.param()
		}
		g.kw("AS")
		g.pk([]string{"INT64", "FLOAT64"}[g.alt(2)])
		g.p(")")
	}
	if g.opt() {
		g.kw("ROWS")
	} else {
		g.pk("PERCENT")
	}
	g.p(")")
}

func (g *G) withOffset() {
	if !g.opt() {
		return
	}
	g.kw("WITH")
	g.pk("OFFSET")
	g.alias()
}

func (g *G) tablePrimary() {
	switch g.alt(6) {
	case 0:
		// table name
		g.id()
		if g.opt() {
			g.hint()
		}
		g.alias()
		g.tableSample()
	case 1:
		// path (array path / schema-qualified table)
		g.id()
		g.p(".")
		g.id()
		if g.opt() {
			g.hint()
		}
		g.alias()
		g.withOffset()
		g.tableSample()
	case 2:
		g.kw("UNNEST")
		g.p("(")
		g.Expr()
		g.p(")")
		if g.opt() {
			g.hint()
		}
		g.alias()
		g.withOffset()
		g.tableSample()
	case 3:
		g.p("(")
		g.Query()
		g.p(")")
		g.alias()
		g.tableSample()
	case 4:
		// parenthesised join
		g.p("(")
		g.tablePrimary()
		g.kw("CROSS", "JOIN")
		g.tablePrimary()
		g.p(")")
		g.tableSample()
	case 5:
		// table-valued function
		g.path()
		g.p("(")
		switch g.alt(5) {
		case 0:
			g.list0(g.Expr)
		case 1:
			g.pk("TABLE")
			g.path()
		case 2:
			g.pk("MODEL")
			g.path()
			g.p(",")
			g.p("(")
			g.Query()
			g.p(")")
		case 3:
			g.Expr()
			g.p(",")
			g.list(g.namedArg)
		case 4:
			g.list(g.namedArg)
		}
		g.p(")")
		if g.opt() {
			g.hint()
		}
		g.tableSample()
	}
}

// QueryStatement: [statement hint] query
func (g *G) QueryStatement() {
	if g.opt() {
		g.hint()
	}
	g.TopQuery()
}

func init() {
	root("query", "query", func(g *G) { g.QueryStatement() })
	// focused roots: the same productions with a fixed minimal context, so that their own
	// alternatives are reached with few deviations
	root("from_clause", "query", func(g *G) { g.kw("SELECT"); g.p("*"); g.kw("FROM"); g.nest(g.tableExpr) })
	root("select_list", "query", func(g *G) { g.kw("SELECT"); g.nest(g.selectBody); g.kw("FROM"); g.plainID() })
	root("subquery_expr", "expr", func(g *G) { g.p("("); g.Query(); g.p(")") })
	root("call_expr", "expr", func(g *G) { g.nest(g.call) })
	root("postfix_expr", "expr", func(g *G) { g.nest(g.postfix) })
	// field access in focus: a reserved keyword is a field name directly after "."; a subscript or a second field may follow
	root("field_access", "expr", func(g *G) {
		switch g.alt(3) {
		case 0:
			g.plainID()
		case 1:
			g.param()
		case 2:
			g.p("(")
			g.plainID()
			g.p(")")
		}
		for i := 0; i < 2; i++ {
			g.p(".")
			switch g.alt(3) {
			case 0:
				g.plainID()
			case 1:
				g.emit(Tok{Text: "select", Class: ID, Val: "select"})
			case 2:
				g.emit(Tok{Text: "ORDER", Class: ID, Val: "ORDER"})
			}
			if !g.opt() {
				break
			}
		}
		if g.opt() {
			g.p("[")
			g.num("0")
			g.p("]")
		}
	})
}
