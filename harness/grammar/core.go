// Package grammar is R2: the reference grammar G of the Spanner GoogleSQL forms
// that memefish implements, written from the Spanner documentation (query
// syntax, expressions and operators, data types, DML, DDL, CALL) as a set of
// generator functions over an explore.Ctx. Every choice point's alternative 0 is
// the minimal one, so the 0-deviation sentence of a root is its shortest
// sentence. A sentence carries its source tokens (with classes) and, built
// independently of the parser and of SQL(), the canonical significant-token
// sequence its unparse must have (C02).
package grammar

import (
	"strings"

	"verif/explore"
)

// Class of a token.
type Class int

const (
	KW    Class = iota // reserved keyword
	PKW                // pseudo keyword (identifier-shaped, matched case-insensitively)
	ID                 // user identifier (Val = name)
	STR                // string literal (Val = decoded value)
	BYTES              // bytes literal (Val = decoded value)
	NUM                // integer or float literal (Val = spelling)
	PARAM              // query parameter (Val = name)
	PUNCT              // punctuation / operator
)

// Tok is one source token.
type Tok struct {
	Text   string
	Class  Class
	Val    string
	NoGap  bool // no blank between this token and the next one in the default spelling (e.g. "a" "." "b" stays spaced; ">>" needs NoGap)
	Sticky bool // this token must not be glued to the next one by the re-speller (empty trivia would change the lexing)
}

// CTok is one canonical token.
type CTok struct {
	Class Class
	Val   string
}

// Sentence is one derivation.
type Sentence struct {
	Root     string // name of the root production
	Kind     string // "query", "ddl", "dml", "call", "expr", "type"
	Src      []Tok
	Canon    []CTok
	CanonSrc []int // for each canonical token the index of the source token it was emitted with/after (-1: none)
}

// Offsets returns the byte offset of each source token in Text().
func (s *Sentence) Offsets() []int {
	out := make([]int, len(s.Src))
	off := 0
	for i, t := range s.Src {
		out[i] = off
		off += len(t.Text)
		if i+1 < len(s.Src) && !t.NoGap {
			off++
		}
	}
	return out
}

// Text is the default spelling: tokens separated by one blank.
func (s *Sentence) Text() string {
	var b strings.Builder
	for i, t := range s.Src {
		b.WriteString(t.Text)
		if i+1 < len(s.Src) && !t.NoGap {
			b.WriteByte(' ')
		}
	}
	return b.String()
}

// G is the generator state for one sentence.
type G struct {
	c     *explore.Ctx
	src   []Tok
	canon []CTok
	csrc  []int
	nid   int
	depth int
	mute  int // >0: emit to source only / canon only
	only  int // 0 both, 1 source only, 2 canon only
}

func (g *G) opt() bool     { return g.c.Choose(2) == 1 }
func (g *G) alt(n int) int { return g.c.Choose(n) }
func (g *G) emit(t Tok) {
	if g.only != 2 {
		g.src = append(g.src, t)
	}
	if g.only != 1 {
		g.canon = append(g.canon, CTok{t.Class, canonVal(t)})
		g.csrc = append(g.csrc, len(g.src)-1)
	}
}

func canonVal(t Tok) string {
	switch t.Class {
	case KW, PKW:
		return strings.ToUpper(t.Text)
	case PUNCT:
		return t.Text
	}
	return t.Val
}

// srcOnly / canonOnly run f emitting to one side only.
func (g *G) srcOnly(f func())   { o := g.only; g.only = 1; f(); g.only = o }
func (g *G) canonOnly(f func()) { o := g.only; g.only = 2; f(); g.only = o }

// kw emits reserved keywords.
func (g *G) kw(ws ...string) {
	for _, w := range ws {
		for _, x := range strings.Fields(w) {
			g.emit(Tok{Text: x, Class: KW})
		}
	}
}

// pk emits pseudo keywords.
func (g *G) pk(ws ...string) {
	for _, w := range ws {
		for _, x := range strings.Fields(w) {
			g.emit(Tok{Text: x, Class: PKW})
		}
	}
}

// p emits punctuation.
func (g *G) p(ws ...string) {
	for _, w := range ws {
		for _, x := range strings.Fields(w) {
			g.emit(Tok{Text: x, Class: PUNCT})
		}
	}
}

var idNames = []string{"a", "b", "c", "d", "e", "f", "g", "h"}

// id emits a user identifier: plain (default), quoted with a blank, quoted
// reserved word, or an unquoted pseudo-keyword-like name.
func (g *G) id() {
	name := idNames[g.nid%len(idNames)]
	g.nid++
	switch g.alt(5) {
	case 0:
		g.emit(Tok{Text: name, Class: ID, Val: name})
	case 1:
		g.emit(Tok{Text: "`" + name + " x`", Class: ID, Val: name + " x"})
	case 2:
		g.emit(Tok{Text: "`from`", Class: ID, Val: "from"})
	case 3:
		g.emit(Tok{Text: "action", Class: ID, Val: "action"})
	case 4:
		// a name the unparser has to escape (non-printable Latin-1 and control characters)
		g.emit(Tok{Text: "`" + name + ` \x01` + "`", Class: ID, Val: name + " \x01"})
	}
}

// plainID emits a plain identifier without alternatives (where the name itself is not the point).
func (g *G) plainID() {
	name := idNames[g.nid%len(idNames)]
	g.nid++
	g.emit(Tok{Text: name, Class: ID, Val: name})
}

// path emits a dotted path of 1 (default) or 2 identifiers.
func (g *G) path() {
	g.id()
	if g.opt() {
		g.p(".")
		g.id()
	}
}

// idList emits 1 (default), 2 or 3 comma-separated identifiers.
func (g *G) idList() { g.list(g.id) }

// list emits 1 (default), 2 or 3 comma-separated items.
func (g *G) list(item func()) {
	n := 1 + g.alt(3)
	for i := 0; i < n; i++ {
		if i > 0 {
			g.p(",")
		}
		item()
	}
}

// list0 emits 0 (alternative), 1 (default) or 2 items: for lists that may be empty.
func (g *G) list0(item func()) {
	n := []int{1, 0, 2}[g.alt(3)]
	for i := 0; i < n; i++ {
		if i > 0 {
			g.p(",")
		}
		item()
	}
}

func (g *G) num(s string)              { g.emit(Tok{Text: s, Class: NUM, Val: s}) }
func (g *G) param()                    { g.emit(Tok{Text: "@p", Class: PARAM, Val: "p"}) }
func (g *G) strTok(text, val string)   { g.emit(Tok{Text: text, Class: STR, Val: val}) }
func (g *G) bytesTok(text, val string) { g.emit(Tok{Text: text, Class: BYTES, Val: val}) }

// str emits a string literal in one of several quote forms.
func (g *G) str() {
	forms := []struct{ text, val string }{
		{`'s'`, "s"}, {`"s"`, "s"}, {`'''s'''`, "s"}, {`"""s"""`, "s"}, {`r's\n'`, `s\n`}, {`R"s"`, "s"},
		{`'a\'b"c'`, `a'b"c`}, {`'é\x41\101\n'`, "éAA\n"}, {`''`, ""}, {`'''a'b'''`, "a'b"},
		// values the unparser has to escape: non-printable Latin-1, control, astral and replacement characters
		{`'\u00a0\u0085\u00ad'`, "\u00a0\u0085\u00ad"}, {`'\U000E0001\ufffd'`, "\U000E0001\ufffd"}, {`'\x01\x7f\r\t'`, "\x01\x7f\r\t"},
		// values that are not valid UTF-8 (a string literal may contain arbitrary bytes through \x escapes)
		{`'a\xef'`, "a\xef"}, {`'\xef\xbf'`, "\xef\xbf"}, {`'\xff\xc3'`, "\xff\xc3"},
	}
	f := forms[g.alt(len(forms))]
	g.strTok(f.text, f.val)
}

// bytesLit emits a bytes literal.
func (g *G) bytesLit() {
	forms := []struct{ text, val string }{
		{`b'x'`, "x"}, {`B"x"`, "x"}, {`rb'x\n'`, `x\n`}, {`bR"x"`, "x"}, {`b'''x'''`, "x"}, {`b'\xff\000'`, "\xff\x00"},
	}
	f := forms[g.alt(len(forms))]
	g.bytesTok(f.text, f.val)
}

// Root is a named root production.
type Root struct {
	Name string
	Kind string
	Gen  func(g *G)
}

// Derive builds one sentence of root using c's choices.
func Derive(c *explore.Ctx, r *Root) *Sentence {
	g := &G{c: c}
	r.Gen(g)
	return &Sentence{Root: r.Name, Kind: r.Kind, Src: g.src, Canon: g.canon, CanonSrc: g.csrc}
}

// Roots lists every root production.
var Roots []*Root

func root(name, kind string, gen func(g *G)) {
	Roots = append(Roots, &Root{name, kind, gen})
}
