package grammar

// DML, CALL and DDL. Written from "Data manipulation language" and "Data
// definition language" (tables, indexes, search/vector indexes, views, change
// streams, roles and grants, sequences, models, proto bundles, locality
// groups, placements, schemas, property graphs, statistics) of the Spanner
// GoogleSQL reference.

// capture runs f into fresh buffers and returns what it emitted.
func (g *G) capture(f func()) ([]Tok, []CTok, []int) {
	s, c, cs := g.src, g.canon, g.csrc
	g.src, g.canon, g.csrc = nil, nil, nil
	f()
	rs, rc, rcs := g.src, g.canon, g.csrc
	g.src, g.canon, g.csrc = s, c, cs
	return rs, rc, rcs
}

func (g *G) options() {
	g.pk("OPTIONS")
	g.p("(")
	g.list(func() {
		g.id()
		g.p("=")
		switch g.alt(6) {
		case 0:
			g.num("1")
		case 1:
			g.kw("TRUE")
		case 2:
			g.kw("NULL")
		case 3:
			g.str()
		case 4:
			g.p("[")
			g.list(g.str)
			g.p("]")
		case 5:
			g.Expr()
		}
	})
	g.p(")")
}

func (g *G) optOptions() {
	if g.opt() {
		g.options()
	}
}

func (g *G) ifNotExists() {
	if g.opt() {
		g.kw("IF", "NOT", "EXISTS")
	}
}

func (g *G) ifExists() {
	if g.opt() {
		g.kw("IF", "EXISTS")
	}
}

func (g *G) thenReturn() {
	if !g.opt() {
		return
	}
	g.kw("THEN")
	g.pk("RETURN")
	if g.opt() {
		g.kw("WITH")
		g.pk("ACTION")
		if g.opt() {
			g.kw("AS")
			g.id()
		}
	}
	g.list(g.selectItem)
}

func (g *G) stmtHint() {
	if g.opt() {
		g.hint()
	}
}

func (g *G) tableHint() {
	if g.opt() {
		g.hint()
	}
}

func (g *G) defaultOrExpr() {
	if g.opt() {
		g.kw("DEFAULT")
	} else {
		g.Expr()
	}
}

func (g *G) insert() {
	g.stmtHint()
	g.pk("INSERT")
	switch g.alt(3) {
	case 1:
		g.kw("OR")
		g.pk("UPDATE")
	case 2:
		g.kw("OR", "IGNORE")
	}
	// INTO is optional; the canonical form has it
	if g.opt() {
		g.canonOnly(func() { g.kw("INTO") })
	} else {
		g.kw("INTO")
	}
	g.path()
	g.tableHint()
	g.p("(")
	g.list0(g.id)
	g.p(")")
	if g.opt() {
		g.TopQuery()
	} else {
		g.pk("VALUES")
		g.list(func() {
			g.p("(")
			g.list0(g.defaultOrExpr)
			g.p(")")
		})
	}
	g.thenReturn()
}

func (g *G) delete() {
	g.stmtHint()
	g.pk("DELETE")
	if g.opt() {
		g.canonOnly(func() { g.kw("FROM") })
	} else {
		g.kw("FROM")
	}
	g.path()
	g.tableHint()
	g.alias()
	g.kw("WHERE")
	g.Expr()
	g.thenReturn()
}

func (g *G) update() {
	g.stmtHint()
	g.pk("UPDATE")
	g.path()
	g.tableHint()
	g.alias()
	g.kw("SET")
	g.list(func() {
		g.path()
		g.p("=")
		g.defaultOrExpr()
	})
	g.kw("WHERE")
	g.Expr()
	g.thenReturn()
}

// ---------------------------------------------------------------------------
// schema types

var scalarSchemaTypes = []string{"INT64", "BOOL", "FLOAT32", "FLOAT64", "DATE", "TIMESTAMP", "NUMERIC", "JSON", "TOKENLIST"}

func (g *G) scalarSchemaType() {
	switch g.alt(5) {
	case 0:
		g.pk("INT64")
	case 1:
		g.pk(scalarSchemaTypes[1+g.alt(len(scalarSchemaTypes)-1)])
	case 2:
		g.pk([]string{"STRING", "BYTES"}[g.alt(2)])
		g.p("(")
		g.pk("MAX")
		g.p(")")
	case 3:
		g.pk([]string{"STRING", "BYTES"}[g.alt(2)])
		g.p("(")
		g.intValueLit()
		g.p(")")
	case 4:
		g.path()
	}
}

func (g *G) intValueLit() {
	switch g.alt(4) {
	case 0:
		g.num("10")
	case 1:
		g.num("0x10")
	case 2:
		g.param()
	case 3:
		g.kw("CAST")
		g.p("(")
		g.num("10")
		g.kw("AS")
		g.pk("INT64")
		g.p(")")
	}
}

func (g *G) schemaType() {
	if !g.opt() {
		g.scalarSchemaType()
		return
	}
	g.kw("ARRAY")
	g.p("<")
	g.scalarSchemaType()
	g.p(">")
	if g.opt() {
		g.p("(")
		g.list(g.namedArgLit)
		g.p(")")
	}
}

func (g *G) namedArgLit() {
	g.emit(Tok{Text: "vector_length", Class: ID, Val: "vector_length"})
	g.p("=>")
	g.num("128")
}

func (g *G) onDelete() {
	if !g.opt() {
		return
	}
	g.kw("ON")
	g.pk("DELETE")
	if g.opt() {
		g.kw("NO")
		g.pk("ACTION")
	} else {
		g.pk("CASCADE")
	}
}

func (g *G) sequenceParams() {
	n := 1 + g.alt(3)
	start := g.alt(3)
	for i := 0; i < n; i++ {
		switch (start + i) % 3 {
		case 0:
			g.pk("BIT_REVERSED_POSITIVE")
		case 1:
			g.pk("SKIP")
			g.kw("RANGE")
			g.num("1")
			g.p(",")
			g.num("1000")
		case 2:
			g.pk("START", "COUNTER")
			g.kw("WITH")
			g.num("50")
		}
	}
}

func (g *G) columnDef() {
	g.id()
	g.schemaType()
	if g.opt() {
		g.kw("NOT", "NULL")
	}
	switch g.alt(5) {
	case 1:
		g.kw("DEFAULT")
		g.p("(")
		g.Expr()
		g.p(")")
	case 2:
		g.kw("AS")
		g.p("(")
		g.Expr()
		g.p(")")
		if g.opt() {
			g.pk("STORED")
		}
	case 3:
		g.pk("GENERATED")
		g.kw("BY", "DEFAULT", "AS")
		g.pk("IDENTITY")
		if g.opt() {
			g.p("(")
			g.sequenceParams()
			g.p(")")
		}
	case 4:
		g.pk("AUTO_INCREMENT")
	}
	if g.opt() {
		g.pk("HIDDEN")
	}
	if g.opt() {
		g.pk("PRIMARY", "KEY")
	}
	g.optOptions()
}

func (g *G) constraintBody() {
	if g.opt() {
		g.pk("CHECK")
		g.p("(")
		g.Expr()
		g.p(")")
		return
	}
	g.pk("FOREIGN", "KEY")
	g.p("(")
	g.idList()
	g.p(")")
	g.pk("REFERENCES")
	g.path()
	g.p("(")
	g.idList()
	g.p(")")
	g.onDelete()
	switch g.alt(3) {
	case 1:
		g.pk("ENFORCED")
	case 2:
		g.kw("NOT")
		g.pk("ENFORCED")
	}
}

func (g *G) tableConstraint() {
	if g.opt() {
		g.pk("CONSTRAINT")
		g.id()
	}
	g.constraintBody()
}

func (g *G) rowDeletionPolicy() {
	g.pk("ROW", "DELETION", "POLICY")
	g.p("(")
	g.pk("OLDER_THAN")
	g.p("(")
	g.id()
	g.p(",")
	g.kw("INTERVAL")
	g.num("30")
	g.pk("DAY")
	g.p(")", ")")
}

func (g *G) indexKey() {
	g.id()
	switch g.alt(3) {
	case 1:
		g.kw("ASC")
	case 2:
		g.kw("DESC")
	}
}

func (g *G) createTable() {
	g.kw("CREATE")
	g.pk("TABLE")
	g.ifNotExists()
	g.path()
	g.p("(")
	// elements: columns, constraints, synonyms in any order; canonical order groups by kind
	type elem struct {
		kind int
		s    []Tok
		c    []CTok
		cs   []int
		off  int
	}
	var elems []elem
	n := []int{1, 0, 2, 3}[g.alt(4)]
	for i := 0; i < n; i++ {
		k := g.alt(3)
		var s []Tok
		var c []CTok
		var cs []int
		switch k {
		case 0:
			s, c, cs = g.capture(g.columnDef)
		case 1:
			s, c, cs = g.capture(g.tableConstraint)
		case 2:
			s, c, cs = g.capture(func() {
				g.pk("SYNONYM")
				g.p("(")
				g.id()
				g.p(")")
			})
		}
		elems = append(elems, elem{k, s, c, cs, 0})
	}
	for i := range elems {
		if i > 0 {
			g.srcOnly(func() { g.p(",") })
		}
		elems[i].off = len(g.src)
		g.src = append(g.src, elems[i].s...)
	}
	first := true
	for kind := 0; kind < 3; kind++ {
		for _, e := range elems {
			if e.kind != kind {
				continue
			}
			if !first {
				g.canonOnly(func() { g.p(",") })
			}
			first = false
			g.canon = append(g.canon, e.c...)
			for _, x := range e.cs {
				g.csrc = append(g.csrc, e.off+x)
			}
		}
	}
	if n > 0 && g.opt() {
		g.srcOnly(func() { g.p(",") }) // trailing comma
	}
	g.p(")")
	if g.opt() {
		g.pk("PRIMARY", "KEY")
		g.p("(")
		g.list0(g.indexKey)
		g.p(")")
	}
	if g.opt() {
		g.p(",")
		g.pk("INTERLEAVE")
		g.kw("IN")
		if g.opt() {
			g.pk("PARENT")
		}
		g.path()
		g.onDelete()
	}
	if g.opt() {
		g.p(",")
		g.rowDeletionPolicy()
	}
	if g.opt() {
		g.p(",")
		g.options()
	}
}

func (g *G) alterTable() {
	g.pk("ALTER", "TABLE")
	g.path()
	switch g.alt(22) {
	case 0:
		g.pk("ADD", "COLUMN")
		g.ifNotExists()
		g.columnDef()
	case 1:
		g.pk("ADD", "SYNONYM")
		g.id()
	case 2:
		g.pk("ADD")
		g.tableConstraint()
	case 3:
		g.pk("ADD")
		g.rowDeletionPolicy()
	case 4:
		g.pk("DROP", "SYNONYM")
		g.id()
	case 5:
		g.pk("DROP", "COLUMN")
		g.id()
	case 6:
		g.pk("DROP", "CONSTRAINT")
		g.id()
	case 7:
		g.pk("DROP", "ROW", "DELETION", "POLICY")
	case 8:
		g.pk("RENAME")
		g.kw("TO")
		g.id()
		if g.opt() {
			g.p(",")
			g.pk("ADD", "SYNONYM")
			g.id()
		}
	case 9:
		g.pk("REPLACE")
		g.rowDeletionPolicy()
	case 10:
		g.kw("SET", "ON")
		g.pk("DELETE")
		if g.opt() {
			g.kw("NO")
			g.pk("ACTION")
		} else {
			g.pk("CASCADE")
		}
	case 11:
		g.kw("SET")
		g.options()
	case 12:
		g.kw("SET")
		g.pk("INTERLEAVE")
		g.kw("IN")
		if g.opt() {
			g.pk("PARENT")
		}
		g.path()
		g.onDelete()
	case 13:
		g.alterColumnHead()
		g.schemaType()
		if g.opt() {
			g.kw("NOT", "NULL")
		}
		if g.opt() {
			g.kw("DEFAULT")
			g.p("(")
			g.Expr()
			g.p(")")
		}
	case 14:
		g.alterColumnHead()
		g.kw("SET", "DEFAULT")
		g.p("(")
		g.Expr()
		g.p(")")
	case 15:
		g.alterColumnHead()
		g.kw("SET")
		g.options()
	case 16:
		g.alterColumnHead()
		g.pk("DROP")
		g.kw("DEFAULT")
	case 17:
		g.alterColumnHead()
		g.pk("ALTER", "IDENTITY")
		g.kw("SET")
		g.pk("SKIP")
		g.kw("RANGE")
		g.num("1")
		g.p(",")
		g.num("2")
	case 18:
		g.alterColumnHead()
		g.pk("ALTER", "IDENTITY")
		g.kw("SET", "NO")
		g.pk("SKIP")
		g.kw("RANGE")
	case 19:
		g.alterColumnHead()
		g.pk("ALTER", "IDENTITY", "RESTART", "COUNTER")
		g.kw("WITH")
		g.num("1000")
	case 20:
		g.pk("ADD")
		g.pk("FOREIGN", "KEY")
		g.p("(")
		g.idList()
		g.p(")")
		g.pk("REFERENCES")
		g.path()
		g.p("(")
		g.idList()
		g.p(")")
	case 21:
		g.pk("ADD")
		g.pk("CHECK")
		g.p("(")
		g.Expr()
		g.p(")")
	}
}

func (g *G) alterColumnHead() {
	g.pk("ALTER", "COLUMN")
	g.id()
}

func (g *G) storing() {
	if g.opt() {
		g.pk("STORING")
		g.p("(")
		g.idList()
		g.p(")")
	}
}

func (g *G) interleaveIn() {
	if g.opt() {
		g.p(",")
		g.pk("INTERLEAVE")
		g.kw("IN")
		g.id()
	}
}

func (g *G) createIndex() {
	g.kw("CREATE")
	if g.opt() {
		g.pk("UNIQUE")
	}
	if g.opt() {
		g.pk("NULL_FILTERED")
	}
	g.pk("INDEX")
	g.ifNotExists()
	g.path()
	g.kw("ON")
	g.path()
	g.p("(")
	g.list(g.indexKey)
	g.p(")")
	g.storing()
	g.interleaveIn()
	g.optOptions()
}

func (g *G) createSearchIndex() {
	g.kw("CREATE")
	g.pk("SEARCH", "INDEX")
	g.id()
	g.kw("ON")
	g.id()
	g.p("(")
	g.idList()
	g.p(")")
	g.storing()
	if g.opt() {
		g.kw("PARTITION", "BY")
		g.idList()
	}
	if g.opt() {
		g.kw("ORDER", "BY")
		g.list(func() {
			g.id()
			switch g.alt(3) {
			case 1:
				g.kw("ASC")
			case 2:
				g.kw("DESC")
			}
		})
	}
	if g.opt() {
		g.kw("WHERE")
		g.Expr()
	}
	g.interleaveIn()
	g.optOptions()
}

func (g *G) createVectorIndex() {
	g.kw("CREATE")
	g.pk("VECTOR", "INDEX")
	g.ifNotExists()
	g.id()
	g.kw("ON")
	g.id()
	g.p("(")
	g.id()
	g.p(")")
	if g.opt() {
		g.kw("WHERE")
		g.Expr()
	}
	g.options()
}

func (g *G) changeStreamFor() {
	g.kw("FOR")
	if g.opt() {
		g.list(func() {
			g.id()
			if g.opt() {
				g.p("(")
				g.idList()
				g.p(")")
			}
		})
	} else {
		g.kw("ALL")
	}
}

func (g *G) privilege() {
	switch g.alt(5) {
	case 0:
		g.list(func() {
			switch g.alt(4) {
			case 0:
				g.kw("SELECT")
				g.privCols()
			case 1:
				g.pk("INSERT")
				g.privCols()
			case 2:
				g.pk("UPDATE")
				g.privCols()
			case 3:
				g.pk("DELETE")
			}
		})
		g.kw("ON")
		g.pk("TABLE")
		g.idList()
	case 1:
		g.kw("SELECT", "ON")
		g.pk("VIEW")
		g.idList()
	case 2:
		g.kw("SELECT", "ON")
		g.pk("CHANGE", "STREAM")
		g.idList()
	case 3:
		g.pk("EXECUTE")
		g.kw("ON")
		g.pk("TABLE", "FUNCTION")
		g.idList()
	case 4:
		g.pk("ROLE")
		g.idList()
	}
}

func (g *G) privCols() {
	if g.opt() {
		g.p("(")
		g.idList()
		g.p(")")
	}
}

func (g *G) modelColumn() {
	g.id()
	g.schemaType()
	g.optOptions()
}

func (g *G) propertyGraphElement() {
	g.id()
	if g.opt() {
		g.kw("AS")
		g.id()
	}
	// keys
	switch g.alt(4) {
	case 1:
		g.pk("KEY")
		g.colNameList()
	case 2:
		g.sourceDest()
	case 3:
		g.pk("KEY")
		g.colNameList()
		g.sourceDest()
	}
	// labels / properties
	switch g.alt(3) {
	case 1:
		g.elementProperties()
	case 2:
		n := 1 + g.alt(2)
		for i := 0; i < n; i++ {
			if g.opt() {
				g.kw("DEFAULT")
				g.pk("LABEL")
			} else {
				g.pk("LABEL")
				g.id()
			}
			if g.opt() {
				g.elementProperties()
			}
		}
	}
}

func (g *G) colNameList() {
	g.p("(")
	g.idList()
	g.p(")")
}

func (g *G) sourceDest() {
	g.pk("SOURCE", "KEY")
	g.colNameList()
	g.pk("REFERENCES")
	g.id()
	if g.opt() {
		g.colNameList()
	}
	g.pk("DESTINATION", "KEY")
	g.colNameList()
	g.pk("REFERENCES")
	g.id()
	if g.opt() {
		g.colNameList()
	}
}

func (g *G) elementProperties() {
	switch g.alt(4) {
	case 0:
		g.kw("NO")
		g.pk("PROPERTIES")
	case 1:
		g.pk("PROPERTIES")
		// ARE is optional; canonical form has it
		if g.opt() {
			g.canonOnly(func() { g.pk("ARE") })
		} else {
			g.pk("ARE")
		}
		g.kw("ALL")
		g.pk("COLUMNS")
		if g.opt() {
			g.kw("EXCEPT")
			g.colNameList()
		}
	case 2, 3:
		g.pk("PROPERTIES")
		g.p("(")
		g.list(func() {
			g.Expr()
			if g.opt() {
				g.kw("AS")
				g.id()
			}
		})
		g.p(")")
	}
}

func (g *G) protoTypes() {
	g.p("(")
	g.list(g.path)
	g.p(")")
}

func init() {
	root("insert", "dml", func(g *G) { g.insert() })
	root("delete", "dml", func(g *G) { g.delete() })
	root("update", "dml", func(g *G) { g.update() })
	root("call", "call", func(g *G) {
		g.pk("CALL")
		g.path()
		g.p("(")
		g.list0(func() {
			switch g.alt(3) {
			case 0:
				g.Expr()
			case 1:
				g.pk("TABLE")
				g.path()
			case 2:
				g.pk("MODEL")
				g.path()
			}
		})
		g.p(")")
	})
	ddl := func(name string, f func(g *G)) { root(name, "ddl", f) }
	ddl("column_def", func(g *G) {
		g.kw("CREATE")
		g.pk("TABLE")
		g.plainID()
		g.p("(")
		g.columnDef()
		g.p(")")
	})
	ddl("table_constraint", func(g *G) {
		g.kw("CREATE")
		g.pk("TABLE")
		g.plainID()
		g.p("(")
		g.tableConstraint()
		g.p(")")
	})
	ddl("create_schema", func(g *G) { g.kw("CREATE"); g.pk("SCHEMA"); g.id() })
	ddl("drop_schema", func(g *G) { g.pk("DROP", "SCHEMA"); g.id() })
	ddl("create_database", func(g *G) { g.kw("CREATE"); g.pk("DATABASE"); g.id() })
	ddl("alter_database", func(g *G) { g.pk("ALTER", "DATABASE"); g.id(); g.kw("SET"); g.options() })
	ddl("create_locality_group", func(g *G) { g.kw("CREATE"); g.pk("LOCALITY"); g.kw("GROUP"); g.id(); g.optOptions() })
	ddl("alter_locality_group", func(g *G) { g.pk("ALTER", "LOCALITY"); g.kw("GROUP"); g.id(); g.kw("SET"); g.options() })
	ddl("drop_locality_group", func(g *G) { g.pk("DROP", "LOCALITY"); g.kw("GROUP"); g.id() })
	ddl("create_placement", func(g *G) { g.kw("CREATE"); g.pk("PLACEMENT"); g.id(); g.options() })
	ddl("create_proto_bundle", func(g *G) { g.kw("CREATE", "PROTO"); g.pk("BUNDLE"); g.protoTypes() })
	ddl("alter_proto_bundle", func(g *G) {
		g.pk("ALTER")
		g.kw("PROTO")
		g.pk("BUNDLE")
		any := false
		if g.opt() {
			g.pk("INSERT")
			g.protoTypes()
			any = true
		}
		if g.opt() {
			g.pk("UPDATE")
			g.protoTypes()
			any = true
		}
		if !any || g.opt() {
			g.pk("DELETE")
			g.protoTypes()
		}
	})
	ddl("drop_proto_bundle", func(g *G) { g.pk("DROP"); g.kw("PROTO"); g.pk("BUNDLE") })
	ddl("create_table", func(g *G) { g.createTable() })
	ddl("alter_table", func(g *G) { g.alterTable() })
	ddl("drop_table", func(g *G) { g.pk("DROP", "TABLE"); g.ifExists(); g.path() })
	ddl("rename_table", func(g *G) {
		g.pk("RENAME", "TABLE")
		g.list(func() { g.id(); g.kw("TO"); g.id() })
	})
	ddl("create_index", func(g *G) { g.createIndex() })
	ddl("alter_index", func(g *G) {
		g.pk("ALTER", "INDEX")
		g.path()
		g.pk([]string{"ADD", "DROP"}[g.alt(2)])
		g.pk("STORED", "COLUMN")
		g.id()
	})
	ddl("drop_index", func(g *G) { g.pk("DROP", "INDEX"); g.ifExists(); g.path() })
	ddl("create_vector_index", func(g *G) { g.createVectorIndex() })
	ddl("drop_vector_index", func(g *G) { g.pk("DROP", "VECTOR", "INDEX"); g.ifExists(); g.id() })
	ddl("create_search_index", func(g *G) { g.createSearchIndex() })
	ddl("alter_search_index", func(g *G) {
		g.pk("ALTER", "SEARCH", "INDEX")
		g.id()
		g.pk([]string{"ADD", "DROP"}[g.alt(2)])
		g.pk("STORED", "COLUMN")
		g.id()
	})
	ddl("drop_search_index", func(g *G) { g.pk("DROP", "SEARCH", "INDEX"); g.ifExists(); g.id() })
	ddl("create_view", func(g *G) {
		g.kw("CREATE")
		if g.opt() {
			g.kw("OR")
			g.pk("REPLACE")
		}
		g.pk("VIEW")
		g.path()
		g.pk("SQL", "SECURITY")
		g.pk([]string{"INVOKER", "DEFINER"}[g.alt(2)])
		g.kw("AS")
		g.TopQuery()
	})
	ddl("drop_view", func(g *G) { g.pk("DROP", "VIEW"); g.path() })
	ddl("create_change_stream", func(g *G) {
		g.kw("CREATE")
		g.pk("CHANGE", "STREAM")
		g.id()
		if g.opt() {
			g.changeStreamFor()
		}
		g.optOptions()
	})
	ddl("alter_change_stream", func(g *G) {
		g.pk("ALTER", "CHANGE", "STREAM")
		g.id()
		switch g.alt(3) {
		case 0:
			g.kw("SET")
			g.options()
		case 1:
			g.kw("SET")
			g.changeStreamFor()
		case 2:
			g.pk("DROP")
			g.kw("FOR", "ALL")
		}
	})
	ddl("drop_change_stream", func(g *G) { g.pk("DROP", "CHANGE", "STREAM"); g.id() })
	ddl("create_role", func(g *G) { g.kw("CREATE"); g.pk("ROLE"); g.id() })
	ddl("drop_role", func(g *G) { g.pk("DROP", "ROLE"); g.id() })
	ddl("grant", func(g *G) { g.pk("GRANT"); g.privilege(); g.kw("TO"); g.pk("ROLE"); g.idList() })
	ddl("revoke", func(g *G) { g.pk("REVOKE"); g.privilege(); g.kw("FROM"); g.pk("ROLE"); g.idList() })
	ddl("create_sequence", func(g *G) {
		g.kw("CREATE")
		g.pk("SEQUENCE")
		g.ifNotExists()
		g.path()
		if g.opt() {
			g.sequenceParams()
		}
		g.options()
	})
	ddl("alter_sequence", func(g *G) {
		g.pk("ALTER", "SEQUENCE")
		g.path()
		switch g.alt(4) {
		case 0:
			g.kw("SET")
			g.options()
		case 1:
			g.pk("SKIP")
			g.kw("RANGE")
			g.num("1")
			g.p(",")
			g.num("1000")
		case 2:
			g.kw("NO")
			g.pk("SKIP")
			g.kw("RANGE")
		case 3:
			g.pk("RESTART", "COUNTER")
			g.kw("WITH")
			g.num("1")
		}
	})
	// memefish also accepts several ALTER SEQUENCE clauses in one statement (in this order); the
	// documentation shows one clause per statement, so this root goes beyond it
	ddl("alter_sequence_multi", func(g *G) {
		g.pk("ALTER", "SEQUENCE")
		g.path()
		g.pk("SKIP")
		g.kw("RANGE")
		g.num("1")
		g.p(",")
		g.num("2")
		if g.opt() {
			g.kw("NO")
			g.pk("SKIP")
			g.kw("RANGE")
		}
		g.pk("RESTART", "COUNTER")
		g.kw("WITH")
		g.num("3")
	})
	ddl("drop_sequence", func(g *G) { g.pk("DROP", "SEQUENCE"); g.ifExists(); g.path() })
	ddl("alter_statistics", func(g *G) { g.pk("ALTER", "STATISTICS"); g.id(); g.kw("SET"); g.options() })
	ddl("analyze", func(g *G) { g.pk("ANALYZE") })
	ddl("create_model", func(g *G) {
		g.kw("CREATE")
		if g.opt() {
			g.kw("OR")
			g.pk("REPLACE")
		}
		g.pk("MODEL")
		g.ifNotExistsModel()
		if g.opt() {
			g.pk("INPUT")
			g.p("(")
			g.list(g.modelColumn)
			g.p(")")
			g.pk("OUTPUT")
			g.p("(")
			g.list(g.modelColumn)
			g.p(")")
		}
		g.pk("REMOTE")
		g.optOptions()
	})
	ddl("alter_model", func(g *G) { g.pk("ALTER", "MODEL"); g.ifExists(); g.id(); g.kw("SET"); g.options() })
	ddl("drop_model", func(g *G) { g.pk("DROP", "MODEL"); g.ifExists(); g.id() })
	ddl("create_property_graph", func(g *G) {
		g.kw("CREATE")
		if g.opt() {
			g.kw("OR")
			g.pk("REPLACE")
		}
		g.pk("PROPERTY", "GRAPH")
		g.ifNotExists()
		g.id()
		g.pk("NODE", "TABLES")
		g.p("(")
		g.list(g.propertyGraphElement)
		g.p(")")
		if g.opt() {
			g.pk("EDGE", "TABLES")
			g.p("(")
			g.list(g.propertyGraphElement)
			g.p(")")
		}
	})
	ddl("drop_property_graph", func(g *G) { g.pk("DROP", "PROPERTY", "GRAPH"); g.ifExists(); g.id() })
}

// ifNotExistsModel: the documentation puts IF NOT EXISTS before the model name.
func (g *G) ifNotExistsModel() {
	g.ifNotExists()
	g.id()
}
