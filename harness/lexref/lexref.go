// Package lexref is R1: a reference lexer for Spanner GoogleSQL written from the
// lexical-structure documentation (and ZetaSQL's documented dot-identifier
// rule), independently of memefish's lexer.go. It is deliberately written in a
// different style (a scanner over explicit grammar functions returning extents)
// so that a shared mistake is unlikely.
package lexref

import (
	"strings"
	"unicode/utf8"
)

// Tok is one significant token.
type Tok struct {
	Kind  string // "<ident>", "<param>", "<int>", "<float>", "<string>", "<bytes>", "<eof>", KEYWORD, or the punctuation itself
	Pos   int
	End   int
	Value string // decoded value for ident/param/string/bytes
	Base  int    // 10 or 16 for <int>
}

// Comment is one comment with its extent.
type Comment struct{ Pos, End int }

// Result of lexing a whole input.
type Result struct {
	OK       bool
	Toks     []Tok // including the final <eof>
	Comments []Comment
	ErrPos   int    // position at which the rejected construct starts (when !OK)
	Why      string // reason for rejection
}

// Reserved keywords of Spanner GoogleSQL (lexical structure page).
var Reserved = strings.Fields(`
ALL AND ANY ARRAY AS ASC ASSERT_ROWS_MODIFIED AT BETWEEN BY CASE CAST COLLATE CONTAINS CREATE CROSS CUBE CURRENT
DEFAULT DEFINE DESC DISTINCT ELSE END ENUM ESCAPE EXCEPT EXCLUDE EXISTS EXTRACT FALSE FETCH FOLLOWING FOR FROM FULL
GRAPH_TABLE GROUP GROUPING GROUPS HASH HAVING IF IGNORE IN INNER INTERSECT INTERVAL INTO IS JOIN LATERAL LEFT LIKE LIMIT
LOOKUP MERGE NATURAL NEW NO NOT NULL NULLS OF ON OR ORDER OUTER OVER PARTITION PRECEDING PROTO RANGE RECURSIVE RESPECT
RIGHT ROLLUP ROWS SELECT SET SOME STRUCT TABLESAMPLE THEN TO TREAT TRUE UNBOUNDED UNION UNNEST USING WHEN WHERE WINDOW
WITH WITHIN`)

var reservedSet = func() map[string]bool {
	m := map[string]bool{}
	for _, k := range Reserved {
		m[k] = true
	}
	return m
}()

// IsReserved reports whether s (any case) is a reserved keyword.
func IsReserved(s string) bool { return reservedSet[asciiUpper(s)] }

func asciiUpper(s string) string {
	b := []byte(s)
	for i, c := range b {
		if c >= 'a' && c <= 'z' {
			b[i] = c - 32
		}
	}
	return string(b)
}

// Punctuation, longest first (ZetaSQL's symbols plus memefish's documented "<>" and ">>").
var punct = []string{
	"<<", "<=", "<>", ">>", ">=", "+=", "-=", "->", "=>", "|>", "||", "!=", "@@",
	"(", ")", "{", "}", ";", ",", "[", "]", "~", "*", "/", "&", "^", "%", ":", "?", "\\", "$", ".",
	"<", ">", "+", "-", "=", "|", "!", "@",
}

func isLetter(c byte) bool { return c >= 'a' && c <= 'z' || c >= 'A' && c <= 'Z' || c == '_' }
func isDigit(c byte) bool  { return c >= '0' && c <= '9' }
func isWord(c byte) bool   { return isLetter(c) || isDigit(c) }
func isHex(c byte) bool {
	return isDigit(c) || c >= 'a' && c <= 'f' || c >= 'A' && c <= 'F'
}

// IsSpaceRune: Unicode White_Space.
func IsSpaceRune(r rune) bool {
	switch {
	case r >= 0x09 && r <= 0x0D, r == 0x20, r == 0x85, r == 0xA0, r == 0x1680,
		r >= 0x2000 && r <= 0x200A, r == 0x2028, r == 0x2029, r == 0x202F, r == 0x205F, r == 0x3000:
		return true
	}
	return false
}

// spaceLen returns the byte length of the whitespace run at s[i:].
func spaceLen(s string, i int) int {
	j := i
	for j < len(s) {
		r, n := utf8.DecodeRuneInString(s[j:])
		if r == utf8.RuneError && n <= 1 {
			break
		}
		if !IsSpaceRune(r) {
			break
		}
		j += n
	}
	return j - i
}

// commentLen returns the length of the comment starting at s[i:], 0 if none
// starts there, -1 if a block comment starts there and is never closed.
func commentLen(s string, i int) int {
	rest := s[i:]
	switch {
	case strings.HasPrefix(rest, "#"), strings.HasPrefix(rest, "--"), strings.HasPrefix(rest, "//"):
		if k := strings.IndexByte(rest, '\n'); k >= 0 {
			return k + 1
		}
		return len(rest)
	case strings.HasPrefix(rest, "/*"):
		// the closing "*/" must lie entirely after the opening "/*"
		if k := strings.Index(rest[2:], "*/"); k >= 0 {
			return 2 + k + 2
		}
		return -1
	}
	return 0
}

// IsCompleteComment reports whether raw is exactly one complete comment
// (a line comment may or may not include its terminating newline).
func IsCompleteComment(raw string) bool {
	switch {
	case strings.HasPrefix(raw, "#"), strings.HasPrefix(raw, "--"), strings.HasPrefix(raw, "//"):
		k := strings.IndexByte(raw, '\n')
		return k < 0 || k == len(raw)-1
	case strings.HasPrefix(raw, "/*"):
		if len(raw) < 4 {
			return false
		}
		return strings.Index(raw[2:], "*/") == len(raw)-4
	}
	return false
}

// Lex lexes the whole input.
func Lex(s string) Result {
	var res Result
	i := 0
	prev := ""       // kind of the previous significant token
	dotMode := false // the previous token was a "." that followed an identifier-like token
	for {
		// trivia
		for {
			i += spaceLen(s, i)
			n := commentLen(s, i)
			if n == 0 {
				break
			}
			if n < 0 {
				return Result{ErrPos: i, Why: "unclosed comment"}
			}
			res.Comments = append(res.Comments, Comment{i, i + n})
			i += n
		}
		if i >= len(s) {
			res.Toks = append(res.Toks, Tok{Kind: "<eof>", Pos: i, End: i})
			res.OK = true
			return res
		}
		var t Tok
		var why string
		if dotMode && isWord(s[i]) {
			j := i
			for j < len(s) && isWord(s[j]) {
				j++
			}
			t = Tok{Kind: "<ident>", Pos: i, End: j, Value: s[i:j]}
		} else {
			t, why = scan(s, i, prev)
			if why != "" {
				return Result{ErrPos: i, Why: why}
			}
		}
		dotMode = t.Kind == "." && (prev == "<ident>" || prev == "<param>" || prev == ")" || prev == "]")
		prev = t.Kind
		res.Toks = append(res.Toks, t)
		i = t.End
	}
}

func scan(s string, i int, prev string) (Tok, string) {
	c := s[i]
	// literal prefixes and quotes
	if q, raw, isBytes, ok := literalStart(s, i); ok {
		val, end, why := quoted(s, q, raw, !isBytes, false)
		if why != "" {
			return Tok{}, why
		}
		k := "<string>"
		if isBytes {
			k = "<bytes>"
		}
		return Tok{Kind: k, Pos: i, End: end, Value: val}, ""
	}
	switch {
	case c == '`':
		val, end, why := quoted(s, i, false, true, true)
		if why != "" {
			return Tok{}, why
		}
		return Tok{Kind: "<ident>", Pos: i, End: end, Value: val}, ""
	case isLetter(c):
		j := i
		for j < len(s) && isWord(s[j]) {
			j++
		}
		w := s[i:j]
		if IsReserved(w) {
			return Tok{Kind: asciiUpper(w), Pos: i, End: j}, ""
		}
		return Tok{Kind: "<ident>", Pos: i, End: j, Value: w}, ""
	case isDigit(c), c == '.' && i+1 < len(s) && isDigit(s[i+1]) &&
		!(prev == "<ident>" || prev == "<param>" || prev == ")" || prev == "]"):
		return number(s, i)
	case c == '@' && i+1 < len(s) && isLetter(s[i+1]):
		j := i + 1
		for j < len(s) && isWord(s[j]) {
			j++
		}
		return Tok{Kind: "<param>", Pos: i, End: j, Value: s[i+1 : j]}, ""
	}
	for _, p := range punct {
		if strings.HasPrefix(s[i:], p) {
			return Tok{Kind: p, Pos: i, End: i + len(p)}, ""
		}
	}
	return Tok{}, "illegal character"
}

// literalStart recognises [rRbB]{0,2} followed by a quote at s[i:].
func literalStart(s string, i int) (q int, raw, isBytes, ok bool) {
	j := i
	for j < len(s) && j < i+2 {
		switch s[j] {
		case 'r', 'R':
			if raw {
				return 0, false, false, false
			}
			raw = true
		case 'b', 'B':
			if isBytes {
				return 0, false, false, false
			}
			isBytes = true
		default:
			goto done
		}
		j++
	}
done:
	if j < len(s) && (s[j] == '"' || s[j] == '\'') {
		return j, raw, isBytes, true
	}
	return 0, false, false, false
}

// quoted scans a quoted literal whose opening quote is at s[q]; returns decoded
// value and end offset, or a reason for rejection.
func quoted(s string, q int, raw, allowUnicode, isIdent bool) (string, int, string) {
	qc := s[q]
	delim := string(qc)
	if !isIdent && strings.HasPrefix(s[q:], delim+delim+delim) {
		delim = delim + delim + delim
	}
	i := q + len(delim)
	var out []byte
	for {
		if i >= len(s) {
			return "", 0, "unclosed literal"
		}
		if strings.HasPrefix(s[i:], delim) {
			if isIdent && len(out) == 0 {
				return "", 0, "empty identifier"
			}
			return string(out), i + len(delim), ""
		}
		c := s[i]
		if c == '\n' && len(delim) == 1 {
			return "", 0, "newline in single-line literal"
		}
		if c != '\\' {
			out = append(out, c)
			i++
			continue
		}
		// escape
		if i+1 >= len(s) {
			return "", 0, "escape at end of input"
		}
		e := s[i+1]
		if raw {
			out = append(out, '\\', e)
			i += 2
			continue
		}
		i += 2
		switch e {
		case 'a':
			out = append(out, 7)
		case 'b':
			out = append(out, 8)
		case 'f':
			out = append(out, 12)
		case 'n':
			out = append(out, 10)
		case 'r':
			out = append(out, 13)
		case 't':
			out = append(out, 9)
		case 'v':
			out = append(out, 11)
		case '\\', '?', '"', '\'', '`':
			out = append(out, e)
		case '0', '1', '2', '3':
			if i+2 > len(s) || !isOct(s[i]) || !isOct(s[i+1]) {
				return "", 0, "bad octal escape"
			}
			out = append(out, (e-'0')<<6|(s[i]-'0')<<3|(s[i+1]-'0'))
			i += 2
		case 'x', 'X':
			if i+2 > len(s) || !isHex(s[i]) || !isHex(s[i+1]) {
				return "", 0, "bad hex escape"
			}
			out = append(out, hexv(s[i])<<4|hexv(s[i+1]))
			i += 2
		case 'u', 'U':
			if !allowUnicode {
				return "", 0, "unicode escape in bytes"
			}
			n := 4
			if e == 'U' {
				n = 8
			}
			if i+n > len(s) {
				return "", 0, "short unicode escape"
			}
			var v uint32
			for k := 0; k < n; k++ {
				if !isHex(s[i+k]) {
					return "", 0, "bad unicode escape"
				}
				v = v<<4 | uint32(hexv(s[i+k]))
			}
			if v >= 0xD800 && v <= 0xDFFF || v > 0x10FFFF {
				return "", 0, "invalid code point"
			}
			out = utf8.AppendRune(out, rune(v))
			i += n
		default:
			return "", 0, "unknown escape"
		}
	}
}

func isOct(c byte) bool { return c >= '0' && c <= '7' }
func hexv(c byte) byte {
	switch {
	case c >= '0' && c <= '9':
		return c - '0'
	case c >= 'a' && c <= 'f':
		return c - 'a' + 10
	}
	return c - 'A' + 10
}

// number scans integer and floating point literals.
func number(s string, i int) (Tok, string) {
	j := i
	kind := "<int>"
	base := 10
	digits := func() int {
		k := j
		for j < len(s) && isDigit(s[j]) {
			j++
		}
		return j - k
	}
	if s[j] == '0' && j+1 < len(s) && (s[j+1] == 'x' || s[j+1] == 'X') && j+2 < len(s) && isHex(s[j+2]) {
		j += 2
		for j < len(s) && isHex(s[j]) {
			j++
		}
		base = 16
	} else {
		digits()
		if j < len(s) && s[j] == '.' {
			j++
			kind = "<float>"
			digits()
		}
		// exponent
		if j < len(s) && (s[j] == 'e' || s[j] == 'E') {
			k := j + 1
			if k < len(s) && (s[k] == '+' || s[k] == '-') {
				k++
			}
			if k < len(s) && isDigit(s[k]) {
				j = k
				digits()
				kind = "<float>"
			}
		}
	}
	if j < len(s) && isWord(s[j]) {
		return Tok{}, "identifier glued to number"
	}
	t := Tok{Kind: kind, Pos: i, End: j}
	if kind == "<int>" {
		t.Base = base
	}
	return t, ""
}
