package oracle

import (
	"fmt"
	"reflect"
	"strconv"
	"strings"
	"unicode"
)

// EvalPosDoc is an independent evaluator of the position-expression language
// documented in ast/ast.go:
//
//	PosChoice -> PosExpr ("||" PosExpr)*
//	PosExpr   -> PosAtom ("+" IntAtom)*
//	PosAtom   -> PosVar | NodeExpr "." ("pos" | "end")
//	NodeExpr  -> NodeAtom | "(" NodeAtom ("??" NodeAtom)* ")"
//	NodeAtom  -> NodeVar | NodeSliceVar "[" (IntAtom | "$") "]"
//	IntAtom   -> IntVal | "len" "(" StringVar ")" | "(" BoolVar "?" IntAtom ":" IntAtom ")"
//
// written from that EBNF and its documented meaning (an invalid position is -1 and
// stays invalid under "+"; "||" takes the first valid position; "??" the first non-nil
// node; a missing slice element is nil; nil.pos / nil.end are invalid). It does not use
// the repository's poslang package.
func EvalPosDoc(expr string, node any) (pos int, err error) {
	defer func() {
		if r := recover(); r != nil {
			err = fmt.Errorf("%v", r)
		}
	}()
	p := &posParser{toks: posLex(expr), node: reflect.ValueOf(node)}
	for p.node.Kind() == reflect.Pointer || p.node.Kind() == reflect.Interface {
		p.node = p.node.Elem()
	}
	v := p.choice()
	if p.i != len(p.toks) {
		panic("trailing tokens in position expression: " + expr)
	}
	return v, nil
}

func posLex(s string) []string {
	var out []string
	i := 0
	for i < len(s) {
		c := rune(s[i])
		switch {
		case unicode.IsSpace(c):
			i++
		case unicode.IsLetter(c) || c == '_':
			j := i
			for j < len(s) && (unicode.IsLetter(rune(s[j])) || unicode.IsDigit(rune(s[j])) || s[j] == '_') {
				j++
			}
			out = append(out, s[i:j])
			i = j
		case unicode.IsDigit(c):
			j := i
			for j < len(s) && unicode.IsDigit(rune(s[j])) {
				j++
			}
			out = append(out, s[i:j])
			i = j
		case strings.HasPrefix(s[i:], "||"), strings.HasPrefix(s[i:], "??"):
			out = append(out, s[i:i+2])
			i += 2
		default:
			out = append(out, s[i:i+1])
			i++
		}
	}
	return out
}

type posParser struct {
	toks []string
	i    int
	node reflect.Value
}

func (p *posParser) peek() string {
	if p.i < len(p.toks) {
		return p.toks[p.i]
	}
	return ""
}
func (p *posParser) next() string { t := p.peek(); p.i++; return t }
func (p *posParser) expect(t string) {
	if p.next() != t {
		panic("expected " + t)
	}
}

func (p *posParser) choice() int {
	v := p.sum()
	for p.peek() == "||" {
		p.next()
		w := p.sum()
		if v < 0 {
			v = w
		}
	}
	return v
}

func (p *posParser) sum() int {
	v := p.atom()
	for p.peek() == "+" {
		p.next()
		n := p.intAtom()
		if v >= 0 {
			v += n
		}
	}
	return v
}

func (p *posParser) field(name string) reflect.Value {
	f := p.node.FieldByName(name)
	if !f.IsValid() {
		panic("no field " + name)
	}
	return f
}

type nodeLike interface {
	Pos() int
}

func isNilVal(v reflect.Value) bool {
	switch v.Kind() {
	case reflect.Pointer, reflect.Interface, reflect.Slice, reflect.Map:
		return v.IsNil()
	case reflect.Invalid:
		return true
	}
	return false
}

// nodeAtom returns the node value (possibly nil/invalid Value).
func (p *posParser) nodeAtom() reflect.Value {
	name := p.next()
	f := p.field(name)
	if p.peek() == "[" {
		p.next()
		var elem reflect.Value
		if p.peek() == "$" {
			p.next()
			if f.Len() > 0 {
				elem = f.Index(f.Len() - 1)
			}
		} else {
			n := p.intAtom()
			if f.Len() > 0 {
				elem = f.Index(n)
			}
		}
		p.expect("]")
		return elem
	}
	return f
}

func callPosEnd(v reflect.Value, method string) int {
	if !v.IsValid() || isNilVal(v) {
		return -1
	}
	m := v.MethodByName(method)
	if !m.IsValid() {
		panic("value has no method " + method)
	}
	return int(m.Call(nil)[0].Int())
}

func (p *posParser) atom() int {
	if p.peek() == "(" {
		// "(" NodeAtom ("??" NodeAtom)* ")" "." pos|end
		p.next()
		v := p.nodeAtom()
		for p.peek() == "??" {
			p.next()
			w := p.nodeAtom()
			if !v.IsValid() || isNilVal(v) {
				v = w
			}
		}
		p.expect(")")
		p.expect(".")
		which := p.next()
		return callPosEnd(v, map[string]string{"pos": "Pos", "end": "End"}[which])
	}
	// PosVar | NodeAtom "." pos|end
	save := p.i
	name := p.next()
	if p.peek() != "." && p.peek() != "[" {
		f := p.field(name)
		return int(f.Int())
	}
	p.i = save
	v := p.nodeAtom()
	p.expect(".")
	which := p.next()
	return callPosEnd(v, map[string]string{"pos": "Pos", "end": "End"}[which])
}

func (p *posParser) intAtom() int {
	t := p.next()
	switch {
	case t == "len":
		p.expect("(")
		name := p.next()
		p.expect(")")
		return p.field(name).Len()
	case t == "(":
		name := p.next()
		p.expect("?")
		a := p.intAtom()
		p.expect(":")
		b := p.intAtom()
		p.expect(")")
		if p.field(name).Bool() {
			return a
		}
		return b
	}
	n, err := strconv.Atoi(t)
	if err != nil {
		panic("bad integer " + t)
	}
	return n
}
