// Package oracle holds the reference oracles that are independent of the code
// they judge: R4 (structural equality up to positions), R5 (reflective walker),
// R6 (line resolver), R7 (token boundaries via the public lexer).
package oracle

import (
	"fmt"
	"reflect"
	"strings"

	"github.com/cloudspannerecosystem/memefish"
	"github.com/cloudspannerecosystem/memefish/ast"
	"github.com/cloudspannerecosystem/memefish/token"
)

var (
	posType   = reflect.TypeOf(token.Pos(0))
	nodeType  = reflect.TypeOf((*ast.Node)(nil)).Elem()
	tokenType = reflect.TypeOf(token.Token{})
)

// EqualUpToPos is R4: a and b are equal in every field except the numeric
// value of token.Pos fields (validity must agree). It returns "" when equal,
// otherwise a description "path: difference" of the first difference, where
// path uses type and field names only (usable in signatures).
func EqualUpToPos(a, b any) string {
	return eq(reflect.ValueOf(a), reflect.ValueOf(b), "")
}

func eq(a, b reflect.Value, path string) string {
	if !a.IsValid() || !b.IsValid() {
		if a.IsValid() != b.IsValid() {
			return path + ": nil vs non-nil"
		}
		return ""
	}
	if a.Type() != b.Type() {
		return fmt.Sprintf("%s: type %s vs %s", path, a.Type(), b.Type())
	}
	switch a.Kind() {
	case reflect.Interface:
		if a.IsNil() || b.IsNil() {
			if a.IsNil() != b.IsNil() {
				return fmt.Sprintf("%s: nil-ness differs (%s vs %s)", path, dyn(a), dyn(b))
			}
			return ""
		}
		ae, be := a.Elem(), b.Elem()
		if ae.Type() != be.Type() {
			return fmt.Sprintf("%s: dynamic type %s vs %s", path, ae.Type(), be.Type())
		}
		return eq(ae, be, path)
	case reflect.Pointer:
		if a.IsNil() || b.IsNil() {
			if a.IsNil() != b.IsNil() {
				return fmt.Sprintf("%s: nil-ness differs (%s)", path, a.Type())
			}
			return ""
		}
		return eq(a.Elem(), b.Elem(), path)
	case reflect.Struct:
		tn := a.Type().Name()
		if a.Type() == tokenType {
			at, bt := a.Interface().(token.Token), b.Interface().(token.Token)
			if at.Kind != bt.Kind || at.Raw != bt.Raw || at.AsString != bt.AsString {
				return fmt.Sprintf("%s(token): %q/%s vs %q/%s", path, at.Raw, at.Kind, bt.Raw, bt.Kind)
			}
			return ""
		}
		for i := 0; i < a.NumField(); i++ {
			f := a.Type().Field(i)
			if !f.IsExported() {
				continue
			}
			if d := eq(a.Field(i), b.Field(i), tn+"."+f.Name); d != "" {
				return d
			}
		}
		return ""
	case reflect.Slice:
		if a.Len() != b.Len() {
			return fmt.Sprintf("%s: len %d vs %d", path, a.Len(), b.Len())
		}
		if a.Type().Elem().Kind() == reflect.Uint8 {
			if string(a.Bytes()) != string(b.Bytes()) {
				return fmt.Sprintf("%s: bytes %q vs %q", path, a.Bytes(), b.Bytes())
			}
			return ""
		}
		for i := 0; i < a.Len(); i++ {
			if d := eq(a.Index(i), b.Index(i), path+"[]"); d != "" {
				return d
			}
		}
		return ""
	default:
		if a.Type() == posType {
			if (a.Int() < 0) != (b.Int() < 0) {
				return fmt.Sprintf("%s: position validity differs (%d vs %d)", path, a.Int(), b.Int())
			}
			return ""
		}
		if !reflect.DeepEqual(a.Interface(), b.Interface()) {
			return fmt.Sprintf("%s: %#v vs %#v", path, a.Interface(), b.Interface())
		}
		return ""
	}
}

func dyn(v reflect.Value) string {
	if v.IsNil() {
		return "nil"
	}
	return v.Elem().Type().String()
}

// SigOf strips concrete values from a difference description so it can be
// used as a signature component: keeps "Type.Field: kind-of-difference".
func SigOf(diff string) string {
	i := strings.Index(diff, ": ")
	if i < 0 {
		return diff
	}
	path, rest := diff[:i], diff[i+2:]
	switch {
	case strings.HasPrefix(rest, "len "):
		rest = "len"
	case strings.HasPrefix(rest, "position validity"):
		rest = "posvalidity"
	case strings.HasPrefix(rest, "nil-ness"):
		rest = "nilness"
	case strings.HasPrefix(rest, "dynamic type"), strings.HasPrefix(rest, "type "):
		// keep the types: they discriminate root causes
	default:
		rest = "value"
	}
	return path + ":" + rest
}

// IsNilNode reports whether n is nil or a typed nil.
func IsNilNode(n any) bool {
	if n == nil {
		return true
	}
	v := reflect.ValueOf(n)
	return v.Kind() == reflect.Pointer && v.IsNil()
}

// Step is one element of a path from the root to a node.
type Step struct {
	Field string
	Index int // -1 when not a slice element
}

// Visit is one node reached by the reflective walker.
type Visit struct {
	Node   ast.Node
	Path   string // ".Field[0].Other"
	Parent int    // index of parent visit, -1 for root
	Depth  int
}

// Children is R5's child relation: exported fields whose static type is a node
// type (pointer to node struct, node interface) or a slice thereof, in
// declaration order, skipping nil.
func Children(n ast.Node) (out []struct {
	N    ast.Node
	Path string
}) {
	v := reflect.ValueOf(n)
	if v.Kind() == reflect.Pointer {
		if v.IsNil() {
			return nil
		}
		v = v.Elem()
	}
	if v.Kind() != reflect.Struct {
		return nil
	}
	t := v.Type()
	for i := 0; i < t.NumField(); i++ {
		f := t.Field(i)
		if !f.IsExported() {
			continue
		}
		fv := v.Field(i)
		switch {
		case f.Type.Kind() == reflect.Slice && f.Type.Elem().Implements(nodeType):
			for j := 0; j < fv.Len(); j++ {
				e := fv.Index(j)
				if isNilV(e) {
					continue
				}
				out = append(out, struct {
					N    ast.Node
					Path string
				}{e.Interface().(ast.Node), fmt.Sprintf(".%s[%d]", f.Name, j)})
			}
		case f.Type.Implements(nodeType):
			if isNilV(fv) {
				continue
			}
			out = append(out, struct {
				N    ast.Node
				Path string
			}{fv.Interface().(ast.Node), "." + f.Name})
		}
	}
	return out
}

func isNilV(v reflect.Value) bool {
	switch v.Kind() {
	case reflect.Interface:
		if v.IsNil() {
			return true
		}
		e := v.Elem()
		return e.Kind() == reflect.Pointer && e.IsNil()
	case reflect.Pointer:
		return v.IsNil()
	}
	return false
}

// Preorder is R5's preorder listing with paths.
func Preorder(root ast.Node) []Visit {
	var out []Visit
	var rec func(n ast.Node, path string, parent, depth int)
	rec = func(n ast.Node, path string, parent, depth int) {
		idx := len(out)
		out = append(out, Visit{Node: n, Path: path, Parent: parent, Depth: depth})
		for _, c := range Children(n) {
			rec(c.N, path+c.Path, idx, depth+1)
		}
	}
	if !IsNilNode(root) {
		rec(root, "", -1, 0)
	}
	return out
}

// TypeName of a node without package and pointer.
func TypeName(n any) string {
	if n == nil {
		return "nil"
	}
	t := reflect.TypeOf(n)
	for t.Kind() == reflect.Pointer {
		t = t.Elem()
	}
	return t.Name()
}

// ImplTok is one token of the public lexer.
type ImplTok struct {
	Kind     token.TokenKind
	Pos, End int
	Raw      string
	AsString string
	Base     int
}

// ImplLex runs the public lexer to EOF. It returns the tokens (without <eof>),
// and the error (or recovered panic as error) if any.
func ImplLex(s string) (toks []ImplTok, err error) {
	defer func() {
		if r := recover(); r != nil {
			err = fmt.Errorf("panic: %v", r)
		}
	}()
	l := &memefish.Lexer{File: &token.File{Buffer: s}}
	for {
		if e := l.NextToken(); e != nil {
			return toks, e
		}
		if l.Token.Kind == token.TokenEOF {
			return toks, nil
		}
		toks = append(toks, ImplTok{l.Token.Kind, int(l.Token.Pos), int(l.Token.End), l.Token.Raw, l.Token.AsString, l.Token.Base})
		if len(toks) > len(s)+2 {
			return toks, fmt.Errorf("lexer does not advance")
		}
	}
}

// LineCol is R6: 0-based line = number of '\n' before pos; column = bytes since line start.
func LineCol(s string, pos int) (line, col int) {
	last := -1
	for i := 0; i < pos && i < len(s); i++ {
		if s[i] == '\n' {
			line++
			last = i
		}
	}
	return line, pos - (last + 1)
}
