// Package spaces defines the enumerated input spaces (alphabets and builders).
package spaces

import (
	"strings"

	"verif/explore"
)

// Str builds one string of at most maxLen symbols over alphabet: at every
// position a free choice between "stop" (0) and each symbol.
func Str(c *explore.Ctx, alphabet []string, maxLen int) string {
	var b strings.Builder
	for i := 0; i < maxLen; i++ {
		k := c.ChooseFree(len(alphabet) + 1)
		if k == 0 {
			break
		}
		b.WriteString(alphabet[k-1])
	}
	return b.String()
}

// Seq builds one sequence of at most maxLen symbol indices over n symbols.
func Seq(c *explore.Ctx, n, maxLen int) []int {
	var out []int
	for i := 0; i < maxLen; i++ {
		k := c.ChooseFree(n + 1)
		if k == 0 {
			break
		}
		out = append(out, k-1)
	}
	return out
}

// Count returns sum_{l<=k} n^l.
func Count(n, k int) int64 {
	var t, p int64 = 0, 1
	for l := 0; l <= k; l++ {
		t += p
		p *= int64(n)
	}
	return t
}

func syms(s ...string) []string { return s }

// Byte alphabets (S1).
var (
	SigmaGen = syms(" ", "\n", "\r", "a", "b", "r", "e", "x", "0", "1", "8", ".", "'", "\"", "`", "\\", "-", "/", "*", "#", ";", "@", "<", "_", "\xff")
	SigmaNum = syms("0", "1", "9", "a", "f", "x", "X", "e", "E", ".", "+", "-", "_", " ")
	SigmaStr = syms("'", "\"", "`", "\\", "n", "x", "u", "U", "0", "3", "7", "8", "a", "r", "b", "\n")
	SigmaCmt = syms("#", "-", "/", "*", "\n", "a", "'", ";", " ", "\"")
	SigmaOp  = syms("<", ">", "=", "!", "|", "-", "+", "@", ".", "a", "1", "(", "&", "^")
	SigmaUni = syms("\u00a0", "\u3000", "\u0085", "a", " ", "\xff", "\xc2", "\n", "\f", "\v", "\xa0", "\x85", "\ufeff")
	// SigmaSplit for C12
	SigmaSplit = syms(";", "'", "\"", "`", "-", "/", "*", "#", "\n", " ", "a", "\\")
)

// ByteAlphabet names an S1 alphabet with its quick/thorough lengths.
type ByteAlphabet struct {
	Name            string
	Syms            []string
	Quick, Thorough int
}

// S1 lists the byte alphabets of DESIGN.md §4.
var S1 = []ByteAlphabet{
	{"gen", SigmaGen, 5, 6}, // 25 symbols
	{"num", SigmaNum, 6, 7},
	{"str", SigmaStr, 5, 7},
	{"cmt", SigmaCmt, 6, 8},
	{"op", SigmaOp, 5, 7},
	{"uni", SigmaUni, 6, 8},
}

// Lexemes is S2: multi-byte lexical symbols.
var Lexemes = syms(
	// identifiers, keywords, pseudo keywords
	"a", "B1", "_x", "select", "SELECT", "From", "null", "insert", "TABLE", "rb", "Br", "x1e",
	// numbers
	"0", "12", "0x1F", "0X", "0x", ".5", "1.", "1e3", "1e", "1.5e-3", "1E+2", "09",
	// strings: prefix x quote form
	"''", "\"\"", "''''''", "\"\"\"\"\"\"", "'a'", "\"a\"", "'''a'''", "\"\"\"a\nb\"\"\"",
	"r'a\\'", "R\"\\n\"", "b'a'", "B\"a\"", "rb'a'", "bR\"a\"", "Rb'''a'''", "BR'a'", "br\"\\\"\"",
	// escapes
	"'\\a\\b\\f\\n\\r\\t\\v'", "'\\\\\\?\\\"\\'\\`'", "'\\101\\x41\\X41'", "'\\u0041\\U00000041'", "b'\\xff\\377'",
	// invalid escapes
	"'\\c'", "'\\x1'", "'\\400'", "'\\u12'", "'\\ud800'", "'\\U00110000'", "b'\\u0041'", "'\\8'",
	// escapes before closing triple quote, unterminated forms
	"'''a\\''''", "'''a''''", "'a", "'''a", "`a", "/*c", "--c", "'\\",
	// quoted identifiers
	"``", "`a b`", "`select`", "`a\\`b`",
	// comments
	"#c\n", "--c\n", "//c\n", "/*c*/", "/**/", "/*/", "/* ; */",
	// punctuation
	"<>", ">>", "|>", "=>", "->", "+=", "-=", "@@", "?", "$", "\\", ".", "<", ">", "<=", ">=", "<<", "!=", "!", "=", "||", "|",
	"(", ")", "[", "]", "{", "}", ",", ";", ":", "*", "/", "+", "-", "~", "&", "^", "%", "@", "@p",
	// illegal bytes
	"\x00", "\x7f", "\xff", "\u00e9",
)

// Glue for S2.
var Glue = syms("", " ", "\n")

// LiteralMatrix is the product prefix x quote form x body of string/bytes literals (S2b).
var (
	LitPrefixes = syms("", "r", "b", "rb", "R", "B", "bR", "Rb", "BR", "br")
	LitQuotes   = syms("'", "\"", "'''", "\"\"\"")
	LitBodies   = syms("", "a", "\\n", "\\a\\b\\f\\r\\t\\v", "\\\\", "\\?", "\\\"", "\\'", "\\`", "\\101", "\\400", "\\18", "\\089", "\\378", "\\777", "\\1", "\\12a", "\\x41", "\\X4a", "\\x4", "\\xg1",
		"\\u0041", "\\u00e9", "\\ud800", "\\udfff", "\\ue000", "\\u004", "\\U00000041", "\\U0010FFFF", "\\U00110000", "\\U0001F600", "\\c", "\\", "\n", "a\nb", "'", "\"", "''", "\"\"", "\\\n", "\xff", "\u00e9")
	LitSuffixes = syms("", " a", "a", ";")
)
