package spaces

// Malformed are lexically malformed tokens placed at every position of S3 strings.
var Malformed = []string{"1a", "'x", "``", "\"\\x", "/*", "\x00"}

// TokenAlphabet is one S3 alphabet with the entry points it is fed to.
type TokenAlphabet struct {
	Name            string
	Toks            []string
	Quick, Thorough int
}

func withMalformed(t ...string) []string { return append(t, Malformed...) }

// S3 lists the token alphabets of DESIGN.md §4.
var S3 = []TokenAlphabet{
	{"expr", withMalformed("a", "1", "@p", "'s'", "(", ")", "[", "]", ",", ".", "+", "-", "*", "NOT", "AND", "OR", "=", "<", ">", ">>", "<>",
		"IS", "NULL", "IN", "BETWEEN", "LIKE", "CASE", "WHEN", "THEN", "ELSE", "END", "CAST", "AS", "INT64", "SELECT", "ARRAY", "STRUCT",
		"{", "}", ":", "NEW", "WITH", "1.", "`all`", ";"), 3, 4},
	{"query", withMalformed("SELECT", "*", "a", "1", "FROM", "WHERE", "GROUP", "BY", "HAVING", "ORDER", "LIMIT", "OFFSET", "UNION", "ALL", "DISTINCT",
		"EXCEPT", "(", ")", ",", ".", "AS", "JOIN", "ON", "USING", "CROSS", "LEFT", "HASH", "UNNEST", "WITH", "TABLESAMPLE", "@", "{", "}", "=",
		"|>", "FOR", "UPDATE", "@p", ";"), 3, 4},
	{"type", withMalformed("INT64", "STRING", "ARRAY", "STRUCT", "<", ">", ">>", "<>", ",", "a", ".", "(", ")", "1", "MAX", ";"), 4, 5},
	{"ddl", withMalformed("CREATE", "ALTER", "DROP", "TABLE", "INDEX", "t", "(", ")", "a", "INT64", "STRING", "NOT", "NULL", "PRIMARY", "KEY", ",",
		"OPTIONS", "=", "1", "SET", "ADD", "COLUMN", "IF", "EXISTS", "ON", "SEQUENCE", "CHANGE", "STREAM", "FOR", "ALL", "DEFAULT", "VIEW",
		"ROLE", "GRANT", "TO", "SELECT", "ANALYZE", ";"), 3, 4},
	{"dml", withMalformed("INSERT", "INTO", "UPDATE", "DELETE", "FROM", "t", "(", ")", "a", "1", ",", "VALUES", "SET", "=", "WHERE", "TRUE", "DEFAULT",
		"SELECT", "THEN", "RETURN", "*", "@", "{", "}", "CALL", "AS", "WITH", "ACTION", "OR", "IGNORE", ";"), 3, 4},
}
