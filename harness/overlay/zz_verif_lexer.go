//go:build verif

package memefish

import "github.com/cloudspannerecosystem/memefish/token"

// This file is injected by the verification harness with `go build -overlay`;
// it is never part of the repository. It only adds accessors.

// VerifStepRecover advances the lexer in recovery (non-panicking) mode.
func (l *Lexer) VerifStepRecover() { l.nextToken(true) }

// VerifCtl returns the lexer's inter-token control state and byte cursor.
func (l *Lexer) VerifCtl() (last token.TokenKind, cur token.TokenKind, dot bool, pos int) {
	return l.lastTokenKind, l.Token.Kind, l.dotIdent, l.pos
}

// VerifSetCtl puts a fresh lexer into the control state reached after a prefix:
// the kind of the current token (which becomes lastTokenKind on the next step),
// the dot-identifier flag and the byte cursor.
func (l *Lexer) VerifSetCtl(cur token.TokenKind, dot bool, pos int) {
	l.Token.Kind = cur
	l.dotIdent = dot
	l.pos = pos
}
