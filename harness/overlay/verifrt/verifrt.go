// Package verifrt is the run-time side of the verification instrumentation. It is
// injected into the module as a virtual package by `go build -overlay`; it is
// never part of the repository.
//
// Access is called (only in instrumented builds) before every statement that
// mentions a package-level variable of the module. It is (a) a scheduling point of
// the cooperative scheduler when one is installed and (b) feeds the write-set
// monitor.
package verifrt

import (
	"sync"
	"sync/atomic"
)

// Kind of access.
const (
	Read   = 0
	Write  = 1
	Escape = 2
)

// Hook is called at every access when installed (cooperative scheduler).
var hook atomic.Pointer[func(name string, kind int)]

// SetHook installs (or removes, with nil) the scheduling hook.
func SetHook(f func(name string, kind int)) {
	if f == nil {
		hook.Store(nil)
		return
	}
	hook.Store(&f)
}

var (
	monitorOn atomic.Bool
	mu        sync.Mutex
	nonRead   = map[string]int{}
	reads     atomic.Int64
)

// Monitor switches the write-set monitor on or off.
func Monitor(on bool) { monitorOn.Store(on) }

// NonReadAccesses returns the recorded write/escape accesses (name -> count) and the number of read accesses seen.
func NonReadAccesses() (map[string]int, int64) {
	mu.Lock()
	defer mu.Unlock()
	out := map[string]int{}
	for k, v := range nonRead {
		out[k] = v
	}
	return out, reads.Load()
}

// Access is the instrumentation entry point.
func Access(name string, kind int) {
	if monitorOn.Load() {
		if kind == Read {
			reads.Add(1)
		} else {
			mu.Lock()
			k := "write "
			if kind == Escape {
				k = "escape "
			}
			nonRead[k+name]++
			mu.Unlock()
		}
	}
	if h := hook.Load(); h != nil {
		(*h)(name, kind)
	}
}
