// Package sched is a cooperative scheduler for exhaustive interleaving
// exploration. Exactly one registered thread runs at a time; a thread hands
// control back at every scheduling point (verifrt.Access in instrumented code,
// and at call boundaries). Which thread runs next is an explore.Ctx choice, so
// the stateless explorer enumerates schedules: continuing the running thread is
// the default (choice 0), switching away from a runnable thread is a preemption
// (one deviation), choosing after the running thread finished is free.
package sched

import (
	"fmt"

	"github.com/cloudspannerecosystem/memefish/verifrt"

	"verif/explore"
)

// Point tells whether an access is a scheduling point.
type Point func(name string, kind int) bool

// Event is one entry of the execution log.
type Event struct {
	Thread int
	What   string
}

type thread struct {
	resume chan struct{}
	done   bool
	body   func(yield func(what string))
}

// Run executes the thread bodies under the scheduler following c's choices and
// returns the schedule as a list of events. preemptive=false: switching away from a
// runnable thread at a point is a free (fully enumerated) choice; true: it costs one deviation.
func Run(c *explore.Ctx, bodies []func(yield func(what string)), isPoint Point, costed bool) []Event {
	n := len(bodies)
	ths := make([]*thread, n)
	yieldCh := make(chan string)
	current := -1
	var log []Event
	for i := range bodies {
		ths[i] = &thread{resume: make(chan struct{}), body: bodies[i]}
	}
	yield := func(what string) {
		me := current
		yieldCh <- what
		<-ths[me].resume
	}
	for i, t := range ths {
		i, t := i, t
		go func() {
			<-t.resume
			t.body(func(what string) { yield(what) })
			_ = i
			t.done = true
			yieldCh <- "\x00done"
		}()
	}
	verifrt.SetHook(func(name string, kind int) {
		if current < 0 {
			return
		}
		if isPoint == nil || isPoint(name, kind) {
			yield(fmt.Sprintf("access %s/%d", name, kind))
		}
	})
	defer verifrt.SetHook(nil)
	remaining := n
	for remaining > 0 {
		// enabled threads in canonical order: the running one first, then ascending ids
		var en []int
		if current >= 0 && !ths[current].done {
			en = append(en, current)
		}
		for i, t := range ths {
			if !t.done && i != current {
				en = append(en, i)
			}
		}
		k := 0
		if len(en) > 1 {
			if current >= 0 && !ths[current].done && costed {
				k = c.Choose(len(en))
			} else {
				k = c.ChooseFree(len(en))
			}
		}
		current = en[k]
		ths[current].resume <- struct{}{}
		what := <-yieldCh
		if what == "\x00done" {
			remaining--
			log = append(log, Event{current, "done"})
		} else {
			log = append(log, Event{current, what})
		}
	}
	current = -1
	return log
}
