package checks

import (
	"fmt"
	"strings"

	"github.com/cloudspannerecosystem/memefish"

	"verif/explore"
	"verif/lexref"
	"verif/spaces"
)

var splitLexemes = []string{
	";", "a", "1", " ", "\n", "';'", "\";\"", "`;`", "''';\n'''", "r';\\''", "b\";\"",
	"/*;*/", "/* c */", "--;\n", "-- c\n", "#;\n", "//;\n", "--c", "/*", "'", "`", "\\", "'\\;'", "- -", "/ *",
	"select", "@p", ".", "\x00", "\f", "\t", "\r\n", "\u00a0", "\r",
}

// checkSplit evaluates C12's oracle on one input; returns signature->detail.
func checkSplit(s string) (viol map[string]string, obs string, nontrivial bool) {
	viol = map[string]string{}
	ref := lexref.Lex(s)
	var pieces []*memefish.RawStatement
	var err error
	pv, _ := explore.Try(func() { pieces, err = memefish.SplitRawStatements("", s) })
	if pv != nil {
		err = fmt.Errorf("panic: %v", pv) // abnormal failure; totality is C03's business
	}
	if !ref.OK {
		if err == nil {
			viol["C12/accepts-lexical-error"] = fmt.Sprintf("reference lexer rejects (%s at %d) but the splitter succeeds", ref.Why, ref.ErrPos)
		}
		return viol, "reject", false
	}
	if err != nil {
		viol["C12/fails-on-valid"] = fmt.Sprintf("input lexes (reference) but the splitter fails: %v", err)
		return viol, "", false
	}
	if len(pieces) == 0 {
		viol["C12/no-piece"] = "empty result (minimum is one piece)"
		return viol, "", false
	}
	var ob strings.Builder
	prevEnd := 0
	nsemi := 0
	for _, t := range ref.Toks {
		if t.Kind == ";" {
			nsemi++
		}
	}
	for i, p := range pieces {
		fmt.Fprintf(&ob, "[%d,%d)", p.Pos, p.End)
		if p == nil {
			viol["C12/nil-piece"] = "nil piece"
			return viol, "", false
		}
		if p.Pos < 0 || p.End < p.Pos || int(p.End) > len(s) {
			viol["C12/range"] = fmt.Sprintf("piece %d range [%d,%d) len %d", i, p.Pos, p.End, len(s))
			return viol, "", false
		}
		if s[p.Pos:p.End] != p.Statement {
			viol["C12/statement-is-slice"] = fmt.Sprintf("piece %d Statement %q != input[%d:%d] %q", i, p.Statement, p.Pos, p.End, s[p.Pos:p.End])
		}
		if int(p.Pos) < prevEnd {
			viol["C12/order"] = fmt.Sprintf("piece %d starts at %d before previous end %d", i, p.Pos, prevEnd)
			return viol, "", false
		}
		// gap before this piece
		gap := s[prevEnd:p.Pos]
		if i == 0 {
			if !isAllSpace(gap) {
				viol["C12/leading-gap"] = fmt.Sprintf("text before first piece %q is not whitespace", gap)
			}
		} else if d := gapOK(gap, ref, prevEnd, int(p.Pos), true); d != "" {
			viol["C12/gap/"+d] = fmt.Sprintf("text between piece %d and %d is %q", i-1, i, gap)
		}
		// no ';' token inside
		for _, t := range ref.Toks {
			if t.Kind == ";" && t.Pos >= int(p.Pos) && t.Pos < int(p.End) {
				viol["C12/semicolon-inside-piece"] = fmt.Sprintf("piece %d %q contains a ';' token at %d", i, p.Statement, t.Pos)
			}
		}
		prevEnd = int(p.End)
	}
	tail := s[prevEnd:]
	if tail != "" {
		if d := gapOK(tail, ref, prevEnd, len(s), false); d != "" {
			viol["C12/tail/"+d] = fmt.Sprintf("text after the last piece is %q", tail)
		}
	}
	// every non-';' token and every comment inside exactly one piece
	inside := func(a, b int) int {
		n := 0
		for _, p := range pieces {
			if a >= int(p.Pos) && b <= int(p.End) {
				n++
			}
		}
		return n
	}
	for _, t := range ref.Toks {
		if t.Kind == ";" || t.Kind == "<eof>" {
			continue
		}
		if inside(t.Pos, t.End) != 1 {
			viol["C12/token-outside-piece"] = fmt.Sprintf("token %s[%d,%d) lies in %d pieces", t.Kind, t.Pos, t.End, inside(t.Pos, t.End))
		}
	}
	for _, cm := range ref.Comments {
		if inside(cm.Pos, cm.End) != 1 {
			k := "line"
			if strings.HasPrefix(s[cm.Pos:], "/*") {
				k = "block"
			}
			viol["C12/comment-outside-piece/"+k] = fmt.Sprintf("comment %q [%d,%d) lies in %d pieces", s[cm.Pos:cm.End], cm.Pos, cm.End, inside(cm.Pos, cm.End))
		}
	}
	return viol, ob.String(), nsemi > 0 && len(ref.Toks) > 2
}

// gapOK: gap must be whitespace* ';' whitespace* where the ';' is a real token.
func gapOK(gap string, ref lexref.Result, from, to int, needSemi bool) string {
	nsemi := 0
	for _, t := range ref.Toks {
		if t.Pos >= from && t.End <= to && t.Kind != "<eof>" {
			if t.Kind == ";" {
				nsemi++
			} else {
				return "token-in-gap"
			}
		}
	}
	for _, cm := range ref.Comments {
		if cm.Pos >= from && cm.End <= to {
			return "comment-in-gap"
		}
	}
	if nsemi != 1 {
		return fmt.Sprintf("semicolons=%d", nsemi)
	}
	rest := strings.Replace(gap, ";", "", 1)
	if !isAllSpace(rest) {
		return "non-whitespace"
	}
	return ""
}

// C12: SplitRawStatements partitions at top-level semicolons.
func C12(r *explore.Run) {
	r.Rule = "every string over the split alphabet up to the stated length and every short sequence of ';'-relevant lexemes goes through SplitRawStatements; oracle built on reference lexer R1; " +
		"non-trivial = lexable input with >=1 ';' token and >=2 other tokens, distinct by piece extents"
	r.Assume = []string{"R1 decides token and comment extents", "a comment after the last ';' must lie in a piece like any other comment"}
	k, n := 6, 3
	if r.Tier == "thorough" {
		k, n = 8, 4
	}
	body := func(c *explore.Ctx, s string) {
		c.Input(s)
		c.Sample(fmt.Sprintf("%q", s))
		viol, obs, nt := checkSplit(s)
		for sig, d := range viol {
			c.Violation(sig, s, d)
		}
		// the result must not depend on what was split before: repeat after calls that end in unusual lexer states
		// (inputs of at most 6 bytes - every quick-tier byte string; longer inputs are split once)
		before := ""
		if len(s) <= 6 {
			before = splitObs(s)
		}
		for _, poison := range splitPoisons {
			if len(s) > 6 {
				break
			}
			explore.Try(func() { memefish.SplitRawStatements("p.sql", poison) })
			if after := splitObs(s); after != before {
				c.Violation("C12/depends-on-previous-call", fmt.Sprintf("%q after %q", s, poison), fmt.Sprintf("SplitRawStatements(%q) gives %s after splitting %q, but %s before", s, after, poison, before))
				break
			}
		}
		c.OutcomeStr(obs)
		if nt {
			c.Nontrivial(explore.Hash(obs + s))
		}
	}
	r.Explore(explore.Options{Space: "S1/split", MaxDev: -1,
		Bound: fmt.Sprintf("all strings of length<=%d over %d symbols (%d)", k, len(spaces.SigmaSplit), spaces.Count(len(spaces.SigmaSplit), k))},
		func(c *explore.Ctx) { body(c, spaces.Str(c, spaces.SigmaSplit, k)) })
	r.Explore(explore.Options{Space: "S1b/bytes-around-semicolon", MaxDev: -1, SplitLen: 1,
		Bound: fmt.Sprintf("every string of 0,1,2 arbitrary bytes; every byte value in %d contexts around ';'", len(splitByteContexts))},
		func(c *explore.Ctx) {
			k := c.ChooseFree(1 + len(splitByteContexts))
			b := string([]byte{byte(c.ChooseFree(256))})
			if k == 0 {
				if k2 := c.ChooseFree(257); k2 > 0 {
					b += string([]byte{byte(k2 - 1)})
				}
				body(c, b)
				return
			}
			ctx := splitByteContexts[k-1]
			body(c, ctx[0]+b+ctx[1])
		})
	r.Explore(explore.Options{Space: "S2/split-lexemes", MaxDev: -1,
		Bound: fmt.Sprintf("all sequences of <=%d of %d lexemes (%d)", n+1, len(splitLexemes), spaces.Count(len(splitLexemes), n+1))},
		func(c *explore.Ctx) { body(c, spaces.Str(c, splitLexemes, n+1)) })
}

var splitByteContexts = [][2]string{{"a;", "b"}, {"a", ";b"}, {"a ; ", " b"}, {"a;", ""}, {"", ";a"}, {"';", "';a"}, {"/*;", "*/;a"}, {"--;", "\n;a"}, {"`;", "`;a"}, {"a.", ";b"},
	// inside a line comment, with a ';' or a quote later on the same line (only a line feed ends the comment)
	{"a -- x", ";y\n;b"}, {"a #", "';\n"}, {"a //", " ` ;\n;"}, {"--", ";"}}

// splitPoisons end in unusual lexer states (error right after "ident .", inside a string, inside a comment).
var splitPoisons = []string{"SELECT t.'abc", "a . ", "'", "x /*"}

func splitObs(s string) string {
	var b strings.Builder
	pv, _ := explore.Try(func() {
		ps, err := memefish.SplitRawStatements("f.sql", s)
		for _, p := range ps {
			fmt.Fprintf(&b, "[%d,%d)%q;", p.Pos, p.End, p.Statement)
		}
		fmt.Fprint(&b, err)
	})
	if pv != nil {
		return "panic"
	}
	return b.String()
}

func init() {
	Registry["C12"] = C12
	Single["C12"] = func(w string) map[string]string { v, _, _ := checkSplit(w); return v }
}
