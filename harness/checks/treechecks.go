package checks

import (
	"fmt"
	"strings"

	"verif/explore"
	"verif/spaces"
)

// treeSpaces runs body over the S3 token spaces and the corpus (the grammar spaces are added by grammar-based checks).
func treeSpaces(r *explore.Run, gramBase int, body func(c *explore.Ctx, e *Entry, s string, res ParseResult)) {
	treeSpacesMode(r, gramBase, "both", body)
}

// treeSpacesMode: editMode selects which S5 spaces the check needs ("both", "full" or "light").
func treeSpacesMode(r *explore.Run, gramBase int, editMode string, body func(c *explore.Ctx, e *Entry, s string, res ParseResult)) {
	wrap := func(c *explore.Ctx, e *Entry, s string) {
		res := e.Call(s)
		if res.Panic != nil {
			c.Count("parse_panics(C03)", 1)
			if r.Property == "C09" {
				// C09 looks at panics raised while an error's Position is resolved (checkErrorContract)
				body(c, e, s, res)
			}
			return
		}
		body(c, e, s, res)
	}
	tokenSpaces(r, explore.Options{}, false, wrap)
	corpusSpace(r, wrap)
	grammarTreeSpace(r, gramBase, wrap)
	editSpaceMode(r, 1, editMode, wrap)
	corpusEditSpace(r, wrap)
	byteTreeSpace(r, wrap)
	everyByteSpace(r, wrap)
	keywordReplaceSpace(r, 1, wrap)
	identReplaceSpace(r, 1, wrap)
	pumpSpace(r, wrap)
}

// pumpSpace: every string of one or two tokens of an S3 alphabet repeated 2..12 times, bare and inside
// brackets (many errors / many Bad nodes / deep or long recoveries in one call).
func pumpSpace(r *explore.Run, body func(c *explore.Ctx, e *Entry, s string)) {
	for _, a := range spaces.S3 {
		toks, an := a.Toks, a.Name
		r.Explore(explore.Options{Space: "S3p/pumped-" + an, MaxDev: -1,
			Bound: fmt.Sprintf("every string of 1 or 2 of %d tokens repeated 2..12 times, bare, after 'SELECT' / inside '( )' / inside '[ ]'", len(toks))}, func(c *explore.Ctx) {
			seq := spaces.Seq(c, len(toks), 2)
			if len(seq) == 0 {
				return
			}
			n := 2 + c.ChooseFree(11)
			wrapk := c.ChooseFree(4)
			unit := toks[seq[0]]
			if len(seq) > 1 {
				unit += " " + toks[seq[1]]
			}
			s := strings.TrimSpace(strings.Repeat(unit+" ", n))
			switch wrapk {
			case 1:
				s = "SELECT " + s
			case 2:
				s = "( " + s + " )"
			case 3:
				s = "[ " + s + " ]"
			}
			c.Input(s)
			for _, e := range entriesFor(an)[:1] {
				body(c, e, s)
			}
			body(c, EntryByName("ParseStatements"), s)
		})
	}
}

func outcomeTree(c *explore.Ctx, e *Entry, s string, res ParseResult) {
	sh := shapeOf(res.Roots)
	cls := "ok"
	if res.Err != nil {
		cls = "err"
	}
	c.OutcomeStr(e.Name + cls + sh)
	if len(allNodes(res.Roots)) >= 2 {
		c.Nontrivial(explore.Hash(s))
	}
}

// C04: SQL/Pos/End/Walk total on every returned AST.
func C04(r *explore.Run) {
	r.Rule = "every tree returned for every S3 token string (4 entry points per alphabet), every corpus file and every grammar sentence (with and without errors): Walk/Inspect/Preorder on the root and SQL()/Pos()/End() on every node reached by the reflective walker R5; " +
		"non-trivial = tree with >=2 nodes; distinct by (entry point, error/no error, tree shape)"
	r.Assume = []string{"nodes are enumerated by reflection (R5), not by Walk, so a Walk defect cannot hide nodes"}
	treeSpaces(r, 2, func(c *explore.Ctx, e *Entry, s string, res ParseResult) {
		for sig, d := range checkTotalMethods(res) {
			c.Violation(sig, e.Name+": "+s, d)
		}
		outcomeTree(c, e, s, res)
	})
}

// C05: positions are sound.
func C05(r *explore.Run) {
	r.Rule = "every node (R5) of every tree of the S3 token strings, corpus files and grammar sentences: range, token alignment (error-free), nesting and sibling order (CreateTable exempt); " +
		"non-trivial = tree with >=2 nodes; distinct by (entry point, error/no error, tree shape)"
	r.Assume = []string{"token boundaries come from the public lexer (decided by C13/C14), with the split points of '>>' and '<>' admitted"}
	treeSpaces(r, 3, func(c *explore.Ctx, e *Entry, s string, res ParseResult) {
		for sig, d := range checkPositions(s, res) {
			c.Violation(sig, e.Name+": "+s, d)
		}
		outcomeTree(c, e, s, res)
		if res.Err == nil {
			c.Count("error_free_trees", 1)
		} else {
			c.Count("error_trees", 1)
		}
	})
}

// C09: error contract.
func C09(r *explore.Run) {
	r.Rule = "every call on the S3 token strings, corpus files and grammar sentences: nil error => no Bad node and every token inside a returned node; Bad node => error; MultiError has >= one element per BadNode, messages non-empty, positions in range; " +
		"non-trivial = call returning an error; distinct by (entry point, #errors, #Bad nodes, tree shape)"
	r.Assume = []string{"'input remains' is judged from the root's End(), only when that End is a token end (position soundness is C05)"}
	treeSpaces(r, 2, func(c *explore.Ctx, e *Entry, s string, res ParseResult) {
		for sig, d := range checkErrorContract(e, s, res) {
			c.Violation(sig, e.Name+": "+s, d)
		}
		if res.Panic != nil {
			return
		}
		wr, bn := countBad(res.Roots)
		ne := 0
		if res.Err != nil {
			ne = 1
			c.Nontrivial(explore.Hash(s))
		}
		c.OutcomeStr(fmt.Sprintf("%s/%d/%d/%d/%s", e.Name, ne, wr, bn, shapeOf(res.Roots)))
	})
}

// C10: Bad nodes capture exactly the skipped tokens.
func C10(r *explore.Run) {
	r.Rule = "every BadNode of every tree of the S3 token strings, corpus files and single-edit neighbours of grammar sentences: range vs first/last token, Tokens vs the recovery-mode lexing of the whole input restricted to the range, disjointness, SQL() re-lexing; " +
		"non-trivial = input producing >=1 Bad node; distinct by (entry point, tree shape)"
	r.Assume = []string{"the reference token list is the recovery-mode lexer (overlay hook) run over the whole input; its agreement with NextToken on clean text is checked in every case"}
	treeSpaces(r, 2, func(c *explore.Ctx, e *Entry, s string, res ParseResult) {
		v, n := checkBadNodes(e, s, res)
		for sig, d := range v {
			c.Violation(sig, e.Name+": "+s, d)
		}
		c.Count("bad_nodes", int64(n))
		c.OutcomeStr(e.Name + shapeOf(res.Roots))
		if n > 0 {
			c.Nontrivial(explore.Hash(s))
		}
		// recovery-mode lexer == public lexer on lexically clean text
		if e.Name == "ParseStatements" || e.Name == "ParseDDLs" {
			return
		}
		if _, _, toks, ok := tokenBounds(s); ok {
			rl := recoveryLex(s)
			same := len(rl) == len(toks)
			for i := 0; same && i < len(rl); i++ {
				same = rl[i].kind == toks[i].Kind && rl[i].raw == toks[i].Raw && rl[i].pos == toks[i].Pos && rl[i].end == toks[i].End
			}
			if !same {
				c.Violation("C10/recovery-lexer-differs-on-clean-text", s, fmt.Sprintf("recovery-mode tokens %s differ from NextToken's on lexically clean input", fmtToks(rl)))
			}
		}
	})
}

// grammarTreeSpace is replaced once the reference grammar exists.
var grammarTreeSpace = func(r *explore.Run, base int, body func(c *explore.Ctx, e *Entry, s string)) {}

func init() {
	Registry["C04"] = C04
	Registry["C05"] = C05
	Registry["C09"] = C09
	Registry["C10"] = C10
}

// byteTreeSpace: short byte strings over the general lexical alphabet through three entry points
// (reaches token forms that no token alphabet spells, e.g. a parameter glued to a quoted identifier).
func byteTreeSpace(r *explore.Run, body func(c *explore.Ctx, e *Entry, s string)) {
	k := 4
	if r.Tier == "thorough" {
		k = 5
	}
	syms := spaces.SigmaGen
	ents := []*Entry{EntryByName("ParseExpr"), EntryByName("ParseType"), EntryByName("ParseStatement")}
	r.Explore(explore.Options{Space: "S1/gen-through-parsers", MaxDev: -1,
		Bound: fmt.Sprintf("all strings of length<=%d over %d symbols (%d) x 3 entry points", k, len(syms), spaces.Count(len(syms), k))}, func(c *explore.Ctx) {
		s := spaces.Str(c, syms, k)
		c.Input(s)
		c.Sample(fmt.Sprintf("%q", s))
		for _, e := range ents {
			body(c, e, s)
		}
	})
}

// byteContexts place one arbitrary byte at the start, between tokens, inside a token and at the end of a valid input.
var byteContexts = []struct{ entry, pre, post string }{
	{"ParseExpr", "", "1 + a"}, {"ParseExpr", "1 +", "a"}, {"ParseExpr", "1 + a", ""}, {"ParseExpr", "f(a", "b)"},
	{"ParseStatement", "", "SELECT a FROM t"}, {"ParseStatement", "SELECT a", "FROM t"}, {"ParseStatement", "SELECT a FROM t", ""},
	{"ParseStatement", "CREATE TABLE t (a INT64) PRIMARY KEY (a)", ""}, {"ParseStatement", "DELETE", "FROM t WHERE true"},
	{"ParseStatements", "SELECT 1;", "SELECT 2"}, {"ParseType", "ARRAY<", "INT64>"}, {"ParseQuery", "SELECT 1 FROM t.", "a"},
}

func everyByteSpace(r *explore.Run, body func(c *explore.Ctx, e *Entry, s string)) {
	r.Explore(explore.Options{Space: "S1c/every-byte-in-valid-input", MaxDev: -1, SplitLen: 1,
		Bound: fmt.Sprintf("each of the 256 byte values (and each followed by a blank) at %d places of valid inputs", len(byteContexts))}, func(c *explore.Ctx) {
		b := c.ChooseFree(256)
		ctx := byteContexts[c.ChooseFree(len(byteContexts))]
		mid := string([]byte{byte(b)})
		switch c.ChooseFree(3) {
		case 1:
			mid = " " + mid + " "
		case 2:
			mid = mid + mid
		}
		s := ctx.pre + mid + ctx.post
		c.Input(s)
		c.Sample(fmt.Sprintf("%q", s))
		body(c, EntryByName(ctx.entry), s)
	})
}
