package checks

import (
	"fmt"
	"reflect"
	"strings"

	"github.com/cloudspannerecosystem/memefish"
	"github.com/cloudspannerecosystem/memefish/token"

	"verif/explore"
	"verif/lexref"
	"verif/oracle"
)

var listPieces = []string{
	// valid statements
	"SELECT 1", "SELECT a FROM t", "INSERT INTO t (a) VALUES (1)", "DELETE FROM t WHERE TRUE", "UPDATE t SET a = 1 WHERE TRUE",
	"CREATE TABLE t (a INT64) PRIMARY KEY (a)", "DROP TABLE t", "CALL p()",
	// end-of-input sensitive forms, complete and truncated inside the loop that tests for end of file
	"SELECT 1,", "CREATE TABLE t (a INT64,)",
	"@{a=1} SELECT 1", "@{a=1",
	"SELECT 1 IN (1, 2)", "SELECT 1 IN (1,",
	"SELECT CASE WHEN 1 THEN 1 END", "SELECT CASE WHEN 1 THEN 1",
	"SELECT [1, 2]", "SELECT [1,",
	"CREATE TABLE t (a INT64", "CREATE TABLE t (a INT64) PRIMARY KEY (a",
	"INSERT INTO t (a", "INSERT INTO t (a) VALUES (1",
	// other invalid pieces, empty and comment-only pieces
	"SELECT", "FOO", ")", "", "/* c */",
}

var listSeps = []string{";", " ; ", ";\n", " /*c*/ ; --c\n", ";;", "/*c*/;/*d*/", "\n"}

// posDump lists every token.Pos field of the tree (shifted by delta when valid).
func posDump(n any, delta int) string {
	var b strings.Builder
	var rec func(v reflect.Value)
	rec = func(v reflect.Value) {
		switch v.Kind() {
		case reflect.Interface, reflect.Pointer:
			if !v.IsNil() {
				rec(v.Elem())
			}
		case reflect.Struct:
			for i := 0; i < v.NumField(); i++ {
				if v.Type().Field(i).IsExported() {
					rec(v.Field(i))
				}
			}
		case reflect.Slice:
			for i := 0; i < v.Len(); i++ {
				rec(v.Index(i))
			}
		default:
			if v.Type() == posType {
				p := int(v.Int())
				if p >= 0 {
					p += delta
				}
				fmt.Fprintf(&b, "%d,", p)
			}
		}
	}
	rec(reflect.ValueOf(n))
	return b.String()
}

var posType = reflect.TypeOf(token.Pos(0))

func hasToken(piece string) bool {
	r := lexref.Lex(piece)
	return r.OK && len(r.Toks) > 1
}

// checkListCompose is C11's oracle for one list input.
func checkListCompose(listEntry, singleEntry string, x string) (viol map[string]string, nontrivial bool) {
	viol = map[string]string{}
	if r := lexref.Lex(x); !r.OK {
		return // precondition: the input lexes
	}
	var pieces []*memefish.RawStatement
	var err error
	if pv, _ := explore.Try(func() { pieces, err = memefish.SplitRawStatements("f.sql", x) }); pv != nil || err != nil {
		return // C12 / C03
	}
	le, se := EntryByName(listEntry), EntryByName(singleEntry)
	lres := le.Call(x)
	if lres.Panic != nil {
		return
	}
	type alone struct {
		res ParseResult
		off int
		txt string
	}
	var al []alone
	allOK := true
	firstBad := ""
	for _, p := range pieces {
		if !hasToken(p.Statement) {
			continue
		}
		r := se.Call(p.Statement)
		if r.Panic != nil {
			return
		}
		if r.Err != nil && allOK {
			allOK = false
			firstBad = p.Statement
		}
		al = append(al, alone{r, int(p.Pos), p.Statement})
	}
	nontrivial = len(al) >= 2
	pieceKind := func(s string) string {
		r := lexref.Lex(s)
		if !r.OK || len(r.Toks) < 2 {
			return "empty"
		}
		return r.Toks[0].Kind + ".." + r.Toks[len(r.Toks)-2].Kind
	}
	switch {
	case lres.Err == nil && !allOK:
		viol["C11/list-accepts-but-piece-rejected/"+listEntry+"/"+pieceKind(firstBad)] = fmt.Sprintf("%s(%q) returns nil error, but piece %q is rejected by %s", listEntry, x, firstBad, singleEntry)
	case lres.Err != nil && allOK:
		// name the piece before the first error position
		bad := "?"
		if me, ok := lres.Err.(memefish.MultiError); ok && len(me) > 0 && me[0].Position != nil {
			for _, a := range al {
				if a.off <= int(me[0].Position.Pos) {
					bad = a.txt
				}
			}
		}
		viol["C11/list-rejects-but-pieces-accepted/"+listEntry+"/"+pieceKind(bad)] = fmt.Sprintf("%s(%q) fails (%v), but every piece is accepted by %s", listEntry, x, lres.Err, singleEntry)
	case lres.Err == nil:
		if len(lres.Roots) != len(al) {
			viol["C11/count/"+listEntry] = fmt.Sprintf("%s(%q) returns %d statements for %d non-empty pieces", listEntry, x, len(lres.Roots), len(al))
			return
		}
		for i, a := range al {
			if d := oracle.EqualUpToPos(lres.Roots[i], a.res.Roots[0]); d != "" {
				viol["C11/statement-differs/"+oracle.SigOf(d)] = fmt.Sprintf("%s(%q): statement %d differs from the stand-alone parse of %q: %s", listEntry, x, i, a.txt, d)
				continue
			}
			if posDump(lres.Roots[i], 0) != posDump(a.res.Roots[0], a.off) {
				viol["C11/positions-not-shifted/"+oracle.TypeName(lres.Roots[i])] = fmt.Sprintf("%s(%q): positions of statement %d are not those of the stand-alone parse of %q shifted by %d", listEntry, x, i, a.txt, a.off)
			}
		}
	}
	return
}

// C11: statement lists compose.
func C11(r *explore.Run) {
	r.Rule = "every list of at most N pieces from a pool of 27 (valid query/DML/DDL/CALL, end-of-input-sensitive forms complete and truncated, other invalid, empty, comment-only) joined by each of 7 separator spellings (one of them without any ';'), with/without leading and trailing ';', through ParseStatements/ParseDDLs/ParseDMLs; oracle built on SplitRawStatements and the single-statement entry points; inputs that do not lex (R1) are skipped; " +
		"non-trivial = list with >=2 token-bearing pieces; distinct by text"
	n := 3
	if r.Tier == "thorough" {
		n = 4
	}
	P := listPieces
	r.Explore(explore.Options{Space: "piece-lists", MaxDev: -1, SplitLen: 2,
		Bound: fmt.Sprintf("all lists of <=%d of %d pieces x %d separators x leading/trailing ';' x 3 list entry points", n, len(P), len(listSeps))}, func(c *explore.Ctx) {
		var parts []string
		for i := 0; i < n; i++ {
			k := c.ChooseFree(len(P) + 1)
			if k == 0 {
				break
			}
			parts = append(parts, P[k-1])
		}
		sep := listSeps[c.ChooseFree(len(listSeps))]
		x := strings.Join(parts, sep)
		if c.ChooseFree(2) == 1 {
			x = ";" + x
		}
		if c.ChooseFree(2) == 1 {
			x = x + ";"
		}
		c.Input(x)
		c.Sample(fmt.Sprintf("%q", x))
		c.OutcomeStr(x)
		for _, pr := range [][2]string{{"ParseStatements", "ParseStatement"}, {"ParseDDLs", "ParseDDL"}, {"ParseDMLs", "ParseDML"}} {
			v, nt := checkListCompose(pr[0], pr[1], x)
			for sig, d := range v {
				c.Violation(sig, x, d)
			}
			if nt {
				c.Nontrivial(explore.Hash(x))
			}
		}
	})
}

// modePieces are valid statements that each switch the lexer or the parser into some special mode
// ('>>' splitting inside types, keywords as field names after '.', hints, parameters, DDL/DML, THEN RETURN ...):
// state that survives the ';' shows up as a list that is rejected although every piece is accepted.
var modePieces = []string{
	"SELECT STRUCT<>()", "SELECT 1 >> 2", "SELECT 2 >= 1", "SELECT CAST(1 AS ARRAY<ARRAY<INT64>>)", "SELECT ARRAY<STRUCT<a INT64>>[]", "SELECT a <> b",
	"SELECT @p", "SELECT t.select FROM t", "SELECT a.1 FROM a", "@{a=1} SELECT 1", "SELECT 1 FROM t@{FORCE_INDEX=i}", "SELECT * FROM t TABLESAMPLE BERNOULLI (1 PERCENT)",
	"DROP TABLE t", "CREATE TABLE t (a ARRAY<INT64>) PRIMARY KEY ()", "ALTER TABLE t ADD COLUMN b INT64", "CREATE INDEX i ON t (a)",
	"INSERT INTO t (a) VALUES (@p) THEN RETURN a", "UPDATE t SET a = 1 WHERE a >= @p", "DELETE t WHERE TRUE", "CALL p(@p)",
	"SELECT 1 LIMIT 1 OFFSET 2", "SELECT CASE a WHEN 1 THEN 2 ELSE 3 END", "SELECT INTERVAL 1 DAY", "SELECT NEW a.b {c: 1}", "(SELECT 1) UNION ALL (SELECT 2)",
	"FROM t |> WHERE a", "GRANT SELECT ON TABLE t TO ROLE r", "CREATE VIEW v SQL SECURITY INVOKER AS SELECT 1", "SELECT 1 FOR UPDATE",
}

func modeLists(r *explore.Run) {
	P := modePieces
	n := 3
	if r.Tier == "thorough" {
		n = 4
	}
	r.Explore(explore.Options{Space: "mode-switching-lists", MaxDev: -1, SplitLen: 1,
		Bound: fmt.Sprintf("all lists of 1..%d of %d valid mode-switching statements joined by ';' through ParseStatements/ParseDDLs/ParseDMLs", n, len(P))}, func(c *explore.Ctx) {
		var parts []string
		for i := 0; i < n; i++ {
			k := c.ChooseFree(len(P) + 1)
			if k == 0 {
				break
			}
			parts = append(parts, P[k-1])
		}
		if len(parts) == 0 {
			return
		}
		x := strings.Join(parts, "; ")
		c.Input(x)
		c.OutcomeStr(x)
		for _, pr := range [][2]string{{"ParseStatements", "ParseStatement"}, {"ParseDDLs", "ParseDDL"}, {"ParseDMLs", "ParseDML"}} {
			v, nt := checkListCompose(pr[0], pr[1], x)
			for sig, d := range v {
				c.Violation(sig, x, d)
			}
			if nt {
				c.Nontrivial(explore.Hash(x))
			}
		}
	})
}

// composeEdits: every single-edit neighbour of a sentence of G that a single-statement entry point
// accepts stand-alone must also be accepted as a member of a list (this reaches every
// end-of-input-sensitive rule, e.g. a trailing comma inserted at the very end).
func composeEdits(r *explore.Run) {
	def := map[string]string{"ParseStatement": "SELECT 1", "ParseDDL": "DROP TABLE t", "ParseDML": "DELETE FROM t WHERE TRUE"}
	lst := map[string]string{"ParseStatement": "ParseStatements", "ParseDDL": "ParseDDLs", "ParseDML": "ParseDMLs"}
	editSpace(r, 1, func(c *explore.Ctx, e *Entry, x string) {
		le, ok := lst[e.Name]
		if !ok {
			return
		}
		res := e.Call(x)
		if res.Panic != nil || res.Err != nil {
			return
		}
		rl := lexref.Lex(x)
		if !rl.OK {
			return
		}
		for _, t := range rl.Toks {
			if t.Kind == ";" {
				return
			}
		}
		if len(rl.Comments) > 0 && rl.Comments[len(rl.Comments)-1].End == len(x) && !strings.HasSuffix(x, "*/") {
			return // ends inside a line comment: the separator would be swallowed
		}
		c.Count("accepted_edits", 1)
		for _, y := range []string{x + " ; " + def[e.Name], def[e.Name] + " ; " + x, x + " ;"} {
			v, _ := checkListCompose(le, e.Name, y)
			for sig, d := range v {
				c.Violation(sig, y, d)
			}
		}
		c.Nontrivial(explore.Hash(x))
		c.OutcomeStr(e.Name + x)
	})
}

func init() {
	Registry["C11"] = func(r *explore.Run) { C11(r); modeLists(r); composeEdits(r) }
}
