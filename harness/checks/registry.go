// Package checks holds one check per property.
package checks

import (
	"encoding/json"
	"fmt"
	"os"

	"verif/explore"
)

// Registry maps property ids to checks.
var Registry = map[string]func(*explore.Run){
	"C13": C13,
	"C14": C14,
}

// Replay re-runs exactly the recorded case (space + choice sequence) of a replay file,
// without the explorer, and reports whether the recorded signature is still produced.
func Replay(prop, path string) int {
	b, err := os.ReadFile(path)
	if err != nil {
		fmt.Fprintln(os.Stderr, err)
		return 2
	}
	var rp struct {
		Property, Signature, Witness, Detail, Space, Tier string
		Choices                                           []int
	}
	if err := json.Unmarshal(b, &rp); err != nil {
		fmt.Fprintln(os.Stderr, err)
		return 2
	}
	if rp.Space == "direct" || rp.Space == "" {
		fmt.Printf("replay: this violation was found outside the explorer (%s); re-run the check itself\n", rp.Signature)
		return 2
	}
	tier := rp.Tier
	if tier == "" {
		tier = "quick"
	}
	r := explore.NewRun(prop, tier)
	r.ReplaySpace, r.ReplayChoices, r.ReplaySig = rp.Space, rp.Choices, rp.Signature
	Registry[prop](r)
	return r.FinishReplay(path)
}

// Single holds single-input oracles (witness -> signature -> detail), kept for ad-hoc use.
var Single = map[string]func(witness string) map[string]string{}
