// Package checks holds one check per property.
package checks

import (
	"encoding/json"
	"fmt"
	"os"

	"verif/explore"
)

// Registry maps property ids to checks.
var Registry = map[string]func(*explore.Run){
	"C13": C13,
	"C14": C14,
}

// Replay re-evaluates the witness stored in a replay file with the property's
// single-input oracle (no explorer) and reports whether it still fails.
func Replay(prop, path string) int {
	b, err := os.ReadFile(path)
	if err != nil {
		fmt.Fprintln(os.Stderr, err)
		return 2
	}
	var rp struct {
		Property, Signature, Witness, Detail string
	}
	if err := json.Unmarshal(b, &rp); err != nil {
		fmt.Fprintln(os.Stderr, err)
		return 2
	}
	f, ok := Single[prop]
	if !ok {
		fmt.Fprintf(os.Stderr, "no single-input replay for %s\n", prop)
		return 2
	}
	viol := f(rp.Witness)
	for sig, d := range viol {
		fmt.Printf("replay: %s\n  %s\n", sig, d)
	}
	if _, ok := viol[rp.Signature]; ok {
		fmt.Printf("VIOLATION property=%s replay=%s\n", prop, path)
		return 1
	}
	fmt.Printf("replay: signature %q not reproduced\n", rp.Signature)
	return 0
}

// Single holds single-input oracles used by Replay: witness -> signature -> detail.
var Single = map[string]func(witness string) map[string]string{}
