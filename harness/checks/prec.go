package checks

import (
	"fmt"
	"strings"

	"github.com/cloudspannerecosystem/memefish/ast"

	"verif/explore"
	"verif/oracle"
)

// R3: the GoogleSQL operator precedence table as data (1 binds tightest).
//
//	1  field access .f, subscript [i]
//	2  unary + - ~
//	3  * / ||
//	4  + -
//	5  << >>
//	6  &
//	7  ^
//	8  |
//	9  = != <> < <= > >= [NOT] LIKE, [NOT] IN, [NOT] BETWEEN, IS [NOT] NULL/TRUE/FALSE   (non-associative)
//	10 NOT
//	11 AND
//	12 OR
type opInfo struct {
	text  string // source spelling
	level int
	kind  int // 0 binary, 1 prefix, 2 postfix keyword (IS ...), 3 IN, 4 BETWEEN, 5 field, 6 subscript
	not   bool
}

var precOps = []opInfo{
	{"*", 3, 0, false}, {"/", 3, 0, false}, {"||", 3, 0, false},
	{"+", 4, 0, false}, {"-", 4, 0, false},
	{"<<", 5, 0, false}, {">>", 5, 0, false},
	{"&", 6, 0, false}, {"^", 7, 0, false}, {"|", 8, 0, false},
	{"=", 9, 0, false}, {"!=", 9, 0, false}, {"<>", 9, 0, false}, {"<", 9, 0, false}, {"<=", 9, 0, false}, {">", 9, 0, false}, {">=", 9, 0, false},
	{"LIKE", 9, 0, false}, {"NOT LIKE", 9, 0, true},
	{"AND", 11, 0, false}, {"OR", 12, 0, false},
	{"+", 2, 1, false}, {"-", 2, 1, false}, {"~", 2, 1, false}, {"NOT", 10, 1, false},
	{"IS NULL", 9, 2, false}, {"IS NOT NULL", 9, 2, true}, {"IS TRUE", 9, 2, false}, {"IS NOT TRUE", 9, 2, true}, {"IS FALSE", 9, 2, false}, {"IS NOT FALSE", 9, 2, true},
	{"IN", 9, 3, false}, {"NOT IN", 9, 3, true},
	{"BETWEEN", 9, 4, false}, {"NOT BETWEEN", 9, 4, true},
	{".", 1, 5, false}, {"[", 1, 6, false},
}

type pnode struct {
	op   *opInfo // nil for leaf
	kids []*pnode
	leaf string
	lk   int // leaf kind: 0 ident, 1 int, 2 param, 3 call
}

func (n *pnode) level() int {
	if n.op == nil {
		return 0
	}
	return n.op.level
}

// buildPrecTree enumerates trees in pre-order sharing an operator budget.
func buildPrecTree(c *explore.Ctx, budget *int, nleaf *int) *pnode {
	k := 0
	if *budget > 0 {
		k = c.ChooseFree(1 + len(precOps))
	}
	if k == 0 {
		name := string(rune('a' + *nleaf%26))
		*nleaf++
		return &pnode{leaf: name}
	}
	*budget--
	op := &precOps[k-1]
	n := &pnode{op: op}
	arity := 1
	switch op.kind {
	case 0, 3, 6:
		arity = 2
	case 4:
		arity = 3
	}
	for i := 0; i < arity; i++ {
		n.kids = append(n.kids, buildPrecTree(c, budget, nleaf))
	}
	if op.kind == 5 {
		name := string(rune('a' + *nleaf%26))
		*nleaf++
		n.leaf = name // field name
	}
	return n
}

func leafText(n *pnode) string {
	switch n.lk {
	case 1:
		return "1"
	case 2:
		return "@" + n.leaf
	case 3:
		return n.leaf + " ( x )"
	}
	return n.leaf
}

// needParen: does child c in position pos of parent p need parentheses by the table?
func needParen(p, c *pnode, pos int) bool {
	if c.op == nil {
		return false
	}
	cl := c.level()
	switch p.op.kind {
	case 0: // binary
		if p.op.level == 9 {
			return cl >= 9 // non-associative
		}
		if pos == 0 {
			return cl > p.op.level
		}
		return cl >= p.op.level
	case 1: // prefix
		return cl > p.op.level
	case 2: // IS ...
		return cl >= 9
	case 3: // IN: left operand; the list element is a full expression
		if pos == 0 {
			return cl >= 9
		}
		return false
	case 4: // BETWEEN: all three operands bind tighter than comparison
		return cl >= 9
	case 5: // field access
		return cl > 1
	case 6: // subscript: operand; the index is a full expression
		if pos == 0 {
			return cl > 1
		}
		return false
	}
	return false
}

// print renders the tree; full=1 parenthesises every non-leaf operand, full=2 parenthesises it twice
// (redundant parentheses must survive as nested ParenExpr), full=0 follows needParen.
func printPrec(n *pnode, full int) string {
	if n.op == nil {
		return leafText(n)
	}
	kid := func(i int) string {
		s := printPrec(n.kids[i], full)
		if full == 2 && n.kids[i].op != nil {
			return "( ( " + s + " ) )"
		}
		if full == 1 && n.kids[i].op != nil || full == 0 && needParen(n, n.kids[i], i) {
			return "( " + s + " )"
		}
		return s
	}
	switch n.op.kind {
	case 0:
		return kid(0) + " " + n.op.text + " " + kid(1)
	case 1:
		return n.op.text + " " + kid(0)
	case 2:
		return kid(0) + " " + n.op.text
	case 3:
		return kid(0) + " " + n.op.text + " ( " + kid(1) + " )"
	case 4:
		return kid(0) + " " + n.op.text + " " + kid(1) + " AND " + kid(2)
	case 5:
		return kid(0) + " . " + n.leaf
	case 6:
		return kid(0) + " [ " + kid(1) + " ]"
	}
	return "?"
}

// expectShape renders the AST shape the table prescribes (with the documented
// normalisations: sign folded into a numeric literal, ".f" on an identifier/path is a Path).
func expectShape(n *pnode, full int) string {
	if n.op == nil {
		switch n.lk {
		case 1:
			return "Int(1)"
		case 2:
			return "Param(" + n.leaf + ")"
		case 3:
			return "Call(" + n.leaf + ")"
		}
		return "Id(" + n.leaf + ")"
	}
	kid := func(i int) string {
		s := expectShape(n.kids[i], full)
		if full == 2 && n.kids[i].op != nil {
			return "Paren(Paren(" + s + "))"
		}
		if full == 1 && n.kids[i].op != nil || full == 0 && needParen(n, n.kids[i], i) {
			return "Paren(" + s + ")"
		}
		return s
	}
	switch n.op.kind {
	case 0:
		op := n.op.text
		if op == "<>" {
			op = "!="
		}
		return "Bin(" + op + "," + kid(0) + "," + kid(1) + ")"
	case 1:
		k := kid(0)
		if (n.op.text == "-" || n.op.text == "+") && k == "Int(1)" {
			return "Int(" + n.op.text + "1)"
		}
		return "Un(" + n.op.text + "," + k + ")"
	case 2:
		return "Is(" + n.op.text + "," + kid(0) + ")"
	case 3:
		return "In(" + fmt.Sprint(n.op.not) + "," + kid(0) + ",[" + kid(1) + "])"
	case 4:
		return "Between(" + fmt.Sprint(n.op.not) + "," + kid(0) + "," + kid(1) + "," + kid(2) + ")"
	case 5:
		k := kid(0)
		if strings.HasPrefix(k, "Id(") {
			return "Path(" + k[3:len(k)-1] + "." + n.leaf + ")"
		}
		if strings.HasPrefix(k, "Path(") {
			return k[:len(k)-1] + "." + n.leaf + ")"
		}
		return "Sel(" + k + "," + n.leaf + ")"
	case 6:
		return "Index(" + kid(0) + "," + kid(1) + ")"
	}
	return "?"
}

// astShape renders a parsed expression in the same notation.
func astShape(e ast.Node) string {
	switch v := e.(type) {
	case *ast.Ident:
		return "Id(" + v.Name + ")"
	case *ast.Path:
		var p []string
		for _, i := range v.Idents {
			p = append(p, i.Name)
		}
		return "Path(" + strings.Join(p, ".") + ")"
	case *ast.IntLiteral:
		return "Int(" + v.Value + ")"
	case *ast.Param:
		return "Param(" + v.Name + ")"
	case *ast.CallExpr:
		var p []string
		for _, i := range v.Func.Idents {
			p = append(p, i.Name)
		}
		return "Call(" + strings.Join(p, ".") + ")"
	case *ast.ParenExpr:
		return "Paren(" + astShape(v.Expr) + ")"
	case *ast.BinaryExpr:
		return "Bin(" + string(v.Op) + "," + astShape(v.Left) + "," + astShape(v.Right) + ")"
	case *ast.UnaryExpr:
		return "Un(" + string(v.Op) + "," + astShape(v.Expr) + ")"
	case *ast.IsNullExpr:
		return "Is(IS " + map[bool]string{true: "NOT ", false: ""}[v.Not] + "NULL," + astShape(v.Left) + ")"
	case *ast.IsBoolExpr:
		return "Is(IS " + map[bool]string{true: "NOT ", false: ""}[v.Not] + map[bool]string{true: "TRUE", false: "FALSE"}[v.Right] + "," + astShape(v.Left) + ")"
	case *ast.InExpr:
		var vals []string
		if vc, ok := v.Right.(*ast.ValuesInCondition); ok {
			for _, x := range vc.Exprs {
				vals = append(vals, astShape(x))
			}
		} else {
			vals = append(vals, oracle.TypeName(v.Right))
		}
		return "In(" + fmt.Sprint(v.Not) + "," + astShape(v.Left) + ",[" + strings.Join(vals, ",") + "])"
	case *ast.BetweenExpr:
		return "Between(" + fmt.Sprint(v.Not) + "," + astShape(v.Left) + "," + astShape(v.RightStart) + "," + astShape(v.RightEnd) + ")"
	case *ast.SelectorExpr:
		return "Sel(" + astShape(v.Expr) + "," + v.Ident.Name + ")"
	case *ast.IndexExpr:
		idx := "?"
		if a, ok := v.Index.(*ast.ExprArg); ok {
			idx = astShape(a.Expr)
		}
		return "Index(" + astShape(v.Expr) + "," + idx + ")"
	}
	return oracle.TypeName(e)
}

func sigTokensImpl(text string) (string, bool) {
	toks, err := oracle.ImplLex(text)
	if err != nil {
		return "", false
	}
	var b strings.Builder
	for _, t := range toks {
		k := string(t.Kind)
		if k == "<>" {
			k = "!="
		}
		b.WriteString(k)
		b.WriteByte(':')
		b.WriteString(t.AsString)
		if t.Kind == "<int>" {
			b.WriteString(t.Raw)
		}
		b.WriteByte(' ')
	}
	return b.String(), true
}

func opClass(o *opInfo) string {
	if o == nil {
		return "leaf"
	}
	switch o.kind {
	case 0:
		return fmt.Sprintf("bin%d", o.level)
	case 1:
		if o.text == "NOT" {
			return "NOT"
		}
		return "unary"
	case 2:
		return "IS"
	case 3:
		return "IN"
	case 4:
		return "BETWEEN"
	case 5:
		return "field"
	case 6:
		return "subscript"
	}
	return "?"
}

// firstDiffClass names (outer operator class, inner operator class, side) of the shallowest
// parent/child pair in which some child is an operator, for signatures.
func pairClasses(n *pnode) string {
	if n.op == nil {
		return "leaf"
	}
	var parts []string
	for i, k := range n.kids {
		if k.op != nil {
			parts = append(parts, fmt.Sprintf("%s>%s@%d", opClass(n.op), opClass(k.op), i))
		}
	}
	if len(parts) == 0 {
		return opClass(n.op)
	}
	return strings.Join(parts, "+")
}

func validPrecTree(n *pnode) bool {
	// field access directly on an integer literal is not an expression form (EXCLUDED.md)
	if n.op != nil && n.op.kind == 5 && n.kids[0].op == nil && n.kids[0].lk == 1 {
		return false
	}
	for _, k := range n.kids {
		if !validPrecTree(k) {
			return false
		}
	}
	return true
}

// precFailure evaluates the oracle on one tree and returns (clause, detail) of the first failure.
func precFailure(t *pnode, full int) (clause, text, detail string) {
	e := EntryByName("ParseExpr")
	text = printPrec(t, full)
	res := e.Call(text)
	want := expectShape(t, full)
	if res.Panic != nil {
		return "", text, ""
	}
	if res.Err != nil {
		return "rejected", text, fmt.Sprintf("expression printed by the documented table is rejected: %v (expected grouping %s)", res.Err, want)
	}
	got := astShape(res.Roots[0])
	if got != want {
		return "grouping", text, fmt.Sprintf("parsed as %s, the GoogleSQL table gives %s", got, want)
	}
	sql, ok := safeSQL(res.Roots[0])
	if !ok {
		return "", text, ""
	}
	a, ok1 := sigTokensImpl(text)
	b, ok2 := sigTokensImpl(sql)
	if !ok1 || !ok2 || a != b {
		return "unparse-parens", text, fmt.Sprintf("SQL() = %q does not have the source's tokens (adds or drops a parenthesis)", sql)
	}
	return "", text, ""
}

// subtreeFails: does some proper subtree, taken as an expression of its own, already fail?
func subtreeFails(t *pnode, full int) bool {
	for _, k := range t.kids {
		if k.op == nil {
			continue
		}
		if cl, _, _ := precFailure(k, full); cl != "" {
			return true
		}
		if subtreeFails(k, full) {
			return true
		}
	}
	return false
}

func checkPrecTree(c *explore.Ctx, t *pnode) {
	if !validPrecTree(t) {
		return
	}
	for full, mode := range []string{"min", "full", "double"} {
		clause, text, detail := precFailure(t, full)
		c.Input(text)
		c.Count("expressions", 1)
		if clause == "" {
			continue
		}
		// attribute the failure to the smallest failing tree: larger trees that merely contain it are not reported again
		if subtreeFails(t, full) {
			c.Count("failures_inherited_from_subtree", 1)
			continue
		}
		sig := pairClasses(t)
		if full == 2 {
			sig = opClass(t.op) // a redundant parenthesis is lost or kept per parent form, whatever the operand
		}
		c.Violation("C07/"+mode+"/"+clause+"/"+sig, text, detail)
	}
	c.OutcomeStr(expectShape(t, 0))
	c.Nontrivial(explore.Hash(printPrec(t, 0)))
}

// C07: operator precedence and associativity.
func C07(r *explore.Run) {
	r.Rule = "every abstract expression tree with at most N operator occurrences over 21 binary, 14 unary-like and 2 ternary operator forms (leaves named by position), printed minimally parenthesised by the documented GoogleSQL table (R3) fully parenthesised, and with every operator operand parenthesised twice; for trees with <=2 operators each leaf is also varied over {identifier, 1, @p, f(x)}; " +
		"oracle: ParseExpr gives exactly the abstract tree's grouping (ParenExpr exactly where printed), and SQL() has the source's tokens; non-trivial = tree with >=2 operators; distinct by expected shape"
	r.Assume = []string{"R3 is the operator table of the GoogleSQL 'Operators' page; documented normalisations: sign folding into numeric literals, '.f' on an identifier/path yields Path, '<>' prints as '!='"}
	n := 3
	if r.Tier == "thorough" {
		n = 4
	}
	r.Explore(explore.Options{Space: "expr-trees", MaxDev: -1, SplitLen: 2,
		Bound: fmt.Sprintf("all trees with <=%d operator occurrences over %d operator forms, printed 3 ways", n, len(precOps))}, func(c *explore.Ctx) {
		budget, nleaf := n, 0
		t := buildPrecTree(c, &budget, &nleaf)
		c.Sample(printPrec(t, 0))
		checkPrecTree(c, t)
	})
	r.Explore(explore.Options{Space: "expr-trees x leaf-kinds", MaxDev: -1, SplitLen: 2,
		Bound: "all trees with <=2 operator occurrences x one leaf at a time replaced by 1, @p, f(x)"}, func(c *explore.Ctx) {
		budget, nleaf := 2, 0
		t := buildPrecTree(c, &budget, &nleaf)
		var leaves []*pnode
		var walk func(n *pnode)
		walk = func(n *pnode) {
			if n.op == nil {
				leaves = append(leaves, n)
			}
			for _, k := range n.kids {
				walk(k)
			}
		}
		walk(t)
		i := c.ChooseFree(len(leaves))
		leaves[i].lk = 1 + c.ChooseFree(3)
		c.Sample(printPrec(t, 0))
		checkPrecTree(c, t)
	})
}

func init() {
	Registry["C07"] = C07
}
