package checks

import (
	"fmt"
	"reflect"
	"strings"

	"github.com/cloudspannerecosystem/memefish"
	"github.com/cloudspannerecosystem/memefish/ast"

	"verif/explore"
	"verif/oracle"
	"verif/spaces"
)

// Entry is one public parser entry point.
type Entry struct {
	Name   string
	Single bool
	call   func(s string) ([]ast.Node, error)
}

// ParseResult is the observation of one call.
type ParseResult struct {
	Roots []ast.Node // one for single-node entry points, 0..n for lists
	Err   error
	Panic any
	Stack string
}

func one[T ast.Node](n T, err error) ([]ast.Node, error) { return []ast.Node{n}, err }
func many[T ast.Node](ns []T, err error) ([]ast.Node, error) {
	out := make([]ast.Node, len(ns))
	for i, n := range ns {
		out[i] = n
	}
	return out, err
}

// Entries are the nine Parse* entry points.
var Entries = []Entry{
	{"ParseStatement", true, func(s string) ([]ast.Node, error) { return one(memefish.ParseStatement("f.sql", s)) }},
	{"ParseStatements", false, func(s string) ([]ast.Node, error) { return many(memefish.ParseStatements("f.sql", s)) }},
	{"ParseQuery", true, func(s string) ([]ast.Node, error) { return one(memefish.ParseQuery("f.sql", s)) }},
	{"ParseExpr", true, func(s string) ([]ast.Node, error) { return one(memefish.ParseExpr("f.sql", s)) }},
	{"ParseType", true, func(s string) ([]ast.Node, error) { return one(memefish.ParseType("f.sql", s)) }},
	{"ParseDDL", true, func(s string) ([]ast.Node, error) { return one(memefish.ParseDDL("f.sql", s)) }},
	{"ParseDDLs", false, func(s string) ([]ast.Node, error) { return many(memefish.ParseDDLs("f.sql", s)) }},
	{"ParseDML", true, func(s string) ([]ast.Node, error) { return one(memefish.ParseDML("f.sql", s)) }},
	{"ParseDMLs", false, func(s string) ([]ast.Node, error) { return many(memefish.ParseDMLs("f.sql", s)) }},
}

// EntryByName looks an entry point up.
func EntryByName(n string) *Entry {
	for i := range Entries {
		if Entries[i].Name == n {
			return &Entries[i]
		}
	}
	panic("no entry " + n)
}

// Call runs the entry point under recover.
func (e *Entry) Call(s string) ParseResult {
	var r ParseResult
	r.Panic, r.Stack = explore.Try(func() { r.Roots, r.Err = e.call(s) })
	return r
}

// entriesFor returns the entry points an S3 alphabet is fed to.
func entriesFor(alpha string) []*Entry {
	names := map[string][]string{
		"expr":  {"ParseExpr", "ParseStatement", "ParseStatements", "ParseQuery"},
		"query": {"ParseQuery", "ParseStatement", "ParseStatements", "ParseExpr"},
		"type":  {"ParseType", "ParseStatement", "ParseStatements", "ParseExpr"},
		"ddl":   {"ParseDDL", "ParseDDLs", "ParseStatement", "ParseStatements"},
		"dml":   {"ParseDML", "ParseDMLs", "ParseStatement", "ParseStatements"},
	}[alpha]
	var out []*Entry
	for _, n := range names {
		out = append(out, EntryByName(n))
	}
	return out
}

// tokenSpaces runs body over every S3 alphabet (strings of tokens joined by one blank).
// allEntries: feed every string to all nine entry points instead of the alphabet's four.
// extraLen is added to the alphabets' lengths for checks whose oracle is cheap (C01, C03).
var extraLen = map[string]int{
	"C01/expr": 1,
	"C03/expr": 1, "C03/query": 1,
	"C05/type": 1, "C10/type": 1,
}

func tokenSpaces(r *explore.Run, opt explore.Options, allEntries bool, body func(c *explore.Ctx, e *Entry, s string)) {
	for _, a := range spaces.S3 {
		k := a.Quick
		if r.Tier == "thorough" {
			k = a.Thorough
		}
		extra := extraLen[r.Property+"/"+a.Name]
		k += extra
		an := a.Name
		ents := entriesFor(a.Name)
		if allEntries {
			ents = nil
			for i := range Entries {
				ents = append(ents, &Entries[i])
			}
		}
		o := opt
		o.Space = "S3/" + a.Name
		o.MaxDev = -1
		o.Bound = fmt.Sprintf("all strings of <=%d of %d tokens (%d) x %d entry points", k, len(a.Toks), spaces.Count(len(a.Toks), k), len(ents))
		toks := a.Toks
		r.Explore(o, func(c *explore.Ctx) {
			seq := spaces.Seq(c, len(toks), k)
			parts := make([]string, len(seq))
			for i, x := range seq {
				parts[i] = toks[x]
			}
			s := strings.Join(parts, " ")
			c.Input(s)
			c.Sample(fmt.Sprintf("%q", s))
			if extra > 0 && len(seq) > k-extra {
				// the strings of the extra length go through the alphabet's own entry point (and, for all-entry
				// checks, the two statement entry points) only
				prim := entriesFor(an)
				body(c, prim[0], s)
				if allEntries {
					body(c, EntryByName("ParseStatement"), s)
					body(c, EntryByName("ParseStatements"), s)
				}
				return
			}
			for _, e := range ents {
				body(c, e, s)
			}
		})
	}
}

// memefishFrames extracts the memefish function names from a debug.Stack() dump, innermost first.
func memefishFrames(stack string) []string {
	var out []string
	for _, ln := range strings.Split(stack, "\n") {
		if strings.HasPrefix(ln, "\t") || !strings.Contains(ln, "cloudspannerecosystem/memefish") {
			continue
		}
		fn := ln
		if i := strings.LastIndex(fn, "("); i > 0 {
			fn = fn[:i]
		}
		fn = strings.TrimPrefix(fn, "github.com/cloudspannerecosystem/memefish")
		fn = strings.TrimPrefix(fn, "/")
		fn = strings.TrimPrefix(fn, ".")
		// drop closure suffixes and generic instantiation noise
		for _, suf := range []string{".func1", ".func2", ".func3", "[...]"} {
			fn = strings.ReplaceAll(fn, suf, "")
		}
		out = append(out, fn)
	}
	return out
}

// panicClass normalises a panic value for signatures.
func panicClass(pv any) string {
	switch v := pv.(type) {
	case *memefish.Error:
		return "escaped *memefish.Error"
	case error:
		return stripDigits(v.Error())
	case string:
		return stripDigits(v)
	}
	return fmt.Sprintf("%T", pv)
}

func stripDigits(s string) string {
	var b strings.Builder
	for _, c := range s {
		if c >= '0' && c <= '9' {
			if b.Len() > 0 && strings.HasSuffix(b.String(), "N") {
				continue
			}
			b.WriteByte('N')
			continue
		}
		b.WriteRune(c)
	}
	s = b.String()
	if len(s) > 80 {
		s = s[:80]
	}
	return s
}

// panicSig: class + outermost two memefish frames (entry point and its callee) + innermost frame.
func panicSig(pv any, stack string) string {
	fr := memefishFrames(stack)
	// drop frames of panic plumbing
	var f []string
	for _, x := range fr {
		if strings.Contains(x, "panicf") || strings.Contains(x, "errorf") {
			continue
		}
		f = append(f, x)
	}
	outer := "?"
	inner := "?"
	if n := len(f); n > 0 {
		inner = f[0]
		outer = f[n-1]
		if n > 1 {
			outer = f[n-1] + ">" + f[n-2]
		}
	}
	return panicClass(pv) + " @" + outer + " ..." + inner
}

// allNodes returns every node reachable (R5) from the roots, preorder.
func allNodes(roots []ast.Node) []oracle.Visit {
	var out []oracle.Visit
	for _, r := range roots {
		out = append(out, oracle.Preorder(r)...)
	}
	return out
}

var badNodePtr = reflect.TypeOf((*ast.BadNode)(nil))

// isBadWrapper reports whether n is a Bad* wrapper (BadStatement, BadExpr...).
func isBadWrapper(n ast.Node) bool {
	switch n.(type) {
	case *ast.BadStatement, *ast.BadQueryExpr, *ast.BadExpr, *ast.BadType, *ast.BadDDL, *ast.BadDML:
		return true
	}
	return false
}

func shapeOf(roots []ast.Node) string {
	var b strings.Builder
	for _, v := range allNodes(roots) {
		fmt.Fprintf(&b, "%d%s,", v.Depth, oracle.TypeName(v.Node))
	}
	return b.String()
}
