package checks

import (
	"fmt"
	"os"
	"path/filepath"
	"reflect"
	"sort"
	"strings"
	"sync"

	"github.com/cloudspannerecosystem/memefish"
	"github.com/cloudspannerecosystem/memefish/ast"
	"github.com/cloudspannerecosystem/memefish/token"

	"verif/explore"
	"verif/lexref"
	"verif/oracle"
)

// ---------------------------------------------------------------------------
// corpus space: the repository's own testdata/input files

type corpusFile struct {
	Name  string
	Entry string
	Text  string
}

func loadCorpus() []corpusFile {
	repo := os.Getenv("VERIF_REPO")
	if repo == "" {
		repo = "/repo"
	}
	var out []corpusFile
	for dir, entry := range map[string]string{"ddl": "ParseDDL", "dml": "ParseDML", "expr": "ParseExpr", "query": "ParseQuery", "statement": "ParseStatement"} {
		files, _ := filepath.Glob(filepath.Join(repo, "testdata/input", dir, "*"))
		for _, f := range files {
			b, err := os.ReadFile(f)
			if err != nil {
				continue
			}
			out = append(out, corpusFile{dir + "/" + filepath.Base(f), entry, string(b)})
		}
	}
	sort.Slice(out, func(i, j int) bool { return out[i].Name < out[j].Name })
	return out
}

// corpusSpace feeds every corpus file to its own entry point and to ParseStatement(s).
func corpusSpace(r *explore.Run, body func(c *explore.Ctx, e *Entry, s string)) {
	files := loadCorpus()
	if len(files) == 0 {
		return
	}
	r.Explore(explore.Options{Space: "corpus", MaxDev: -1, SplitLen: 1,
		Bound: fmt.Sprintf("all %d files of testdata/input through their entry point (+ParseStatement/ParseStatements for statements)", len(files))}, func(c *explore.Ctx) {
		f := files[c.ChooseFree(len(files))]
		c.Input(f.Text)
		c.Sample(f.Name)
		body(c, EntryByName(f.Entry), f.Text)
		if f.Entry != "ParseExpr" {
			if f.Entry != "ParseStatement" {
				body(c, EntryByName("ParseStatement"), f.Text)
			}
			body(c, EntryByName("ParseStatements"), f.Text)
		}
	})
}

// ---------------------------------------------------------------------------
// helpers on trees

// safePosEnd calls Pos/End under recover.
func safePosEnd(n ast.Node) (pos, end int, ok bool) {
	pv, _ := explore.Try(func() { pos, end = int(n.Pos()), int(n.End()) })
	return pos, end, pv == nil
}

// tokenBounds is R7: starts and ends of the public lexer's tokens (with the
// split points of ">>" and "<>"); ok=false when the input does not lex.
func tokenBounds(s string) (starts, ends map[int]bool, toks []oracle.ImplTok, ok bool) {
	toks, err := oracle.ImplLex(s)
	if err != nil {
		return nil, nil, nil, false
	}
	starts, ends = map[int]bool{}, map[int]bool{}
	for _, t := range toks {
		starts[t.Pos] = true
		ends[t.End] = true
		if t.Kind == ">>" || t.Kind == "<>" {
			starts[t.Pos+1] = true
			ends[t.Pos+1] = true
		}
	}
	return starts, ends, toks, true
}

func fieldOfPath(p string) string {
	// last ".Field[3]" component without index
	i := strings.LastIndex(p, ".")
	if i < 0 {
		return p
	}
	f := p[i+1:]
	if j := strings.Index(f, "["); j >= 0 {
		f = f[:j]
	}
	return f
}

// ---------------------------------------------------------------------------
// C04

type recVisitor struct {
	log  *[]string
	path string
}

func (v *recVisitor) Visit(n ast.Node) ast.Visitor {
	*v.log = append(*v.log, v.path)
	return &recVisitor{v.log, v.path}
}
func (v *recVisitor) VisitMany(ns []ast.Node) ast.Visitor { return v }
func (v *recVisitor) Field(name string) ast.Visitor       { return &recVisitor{v.log, v.path + "." + name} }
func (v *recVisitor) Index(i int) ast.Visitor {
	return &recVisitor{v.log, fmt.Sprintf("%s[%d]", v.path, i)}
}

var c04ShapeSeen sync.Map

func exprOperandType(n ast.Node) string {
	// for "exprPrec: unexpected" name the operand types so different missing cases separate
	var ts []string
	for _, c := range oracle.Children(n) {
		if _, ok := c.N.(ast.Expr); ok {
			ts = append(ts, oracle.TypeName(c.N))
		}
	}
	return strings.Join(ts, ",")
}

func checkTotalMethods(res ParseResult) map[string]string {
	viol := map[string]string{}
	for _, root := range res.Roots {
		if oracle.IsNilNode(root) {
			continue
		}
		var log []string
		if pv, _ := explore.Try(func() { ast.Walk(root, &recVisitor{&log, ""}) }); pv != nil {
			viol["C04/Walk/"+oracle.TypeName(root)+"/"+panicClass(pv)] = fmt.Sprintf("Walk panics: %v", pv)
		}
		if pv, _ := explore.Try(func() { ast.Inspect(root, func(ast.Node) bool { return true }) }); pv != nil {
			viol["C04/Inspect/"+panicClass(pv)] = fmt.Sprintf("Inspect panics: %v", pv)
		}
		if pv, _ := explore.Try(func() {
			for range ast.Preorder(root) {
			}
		}); pv != nil {
			viol["C04/Preorder/"+panicClass(pv)] = fmt.Sprintf("Preorder panics: %v", pv)
		}
		// breaking out of a Preorder range loop at every node (once per distinct tree shape)
		if vs := oracle.Preorder(root); len(vs) <= 24 {
			if _, done := c04ShapeSeen.LoadOrStore(explore.Hash(shapeOf([]ast.Node{root})), true); !done {
				for i := range vs {
					if pv, _ := explore.Try(func() {
						k := 0
						for range ast.Preorder(root) {
							if k == i {
								break
							}
							k++
						}
					}); pv != nil {
						viol["C04/Preorder-break/"+panicClass(pv)] = fmt.Sprintf("breaking out of `for range ast.Preorder(root)` at node %d of %d panics: %v", i, len(vs), pv)
						break
					}
				}
			}
		}
		for _, v := range oracle.Preorder(root) {
			n := v.Node
			tn := oracle.TypeName(n)
			if pv, _ := explore.Try(func() { _ = n.SQL() }); pv != nil {
				sig := "C04/SQL/" + tn + "/" + panicClass(pv)
				if strings.Contains(fmt.Sprint(pv), "exprPrec") {
					sig += "/operand=" + exprOperandType(n)
				}
				// only report at the innermost node whose own SQL() panics: children first
				inner := false
				for _, c := range oracle.Children(n) {
					if p2, _ := explore.Try(func() { _ = c.N.SQL() }); p2 != nil {
						inner = true
					}
				}
				if !inner {
					viol[sig] = fmt.Sprintf("(%s at %s).SQL() panics: %v", tn, v.Path, pv)
				}
			}
			if pv, _ := explore.Try(func() { _ = n.Pos() }); pv != nil {
				viol["C04/Pos/"+tn+"/"+panicClass(pv)] = fmt.Sprintf("(%s at %s).Pos() panics: %v", tn, v.Path, pv)
			}
			if pv, _ := explore.Try(func() { _ = n.End() }); pv != nil {
				viol["C04/End/"+tn+"/"+panicClass(pv)] = fmt.Sprintf("(%s at %s).End() panics: %v", tn, v.Path, pv)
			}
		}
	}
	return viol
}

// ---------------------------------------------------------------------------
// C05

func checkPositions(s string, res ParseResult) map[string]string {
	viol := map[string]string{}
	clean := res.Err == nil
	var starts, ends map[int]bool
	lexOK := false
	if clean {
		starts, ends, _, lexOK = tokenBounds(s)
	}
	L := len(s)
	for _, root := range res.Roots {
		vs := oracle.Preorder(root)
		type pe struct {
			p, e int
			ok   bool
		}
		pes := make([]pe, len(vs))
		// a violation of the range/alignment clauses is reported at the innermost node only:
		// a wrong End of a child is inherited by every ancestor that ends with it.
		type rv struct{ sig, detail string }
		rviol := make([][]rv, len(vs))
		for i, v := range vs {
			p, e, ok := safePosEnd(v.Node)
			pes[i] = pe{p, e, ok}
			if !ok {
				continue
			}
			tn := oracle.TypeName(v.Node)
			if clean {
				if !(0 <= p && p < e && e <= L) {
					rviol[i] = append(rviol[i], rv{"C05/clean/range/" + tn, fmt.Sprintf("%s at %s: Pos=%d End=%d len=%d", tn, v.Path, p, e, L)})
					continue
				}
				if lexOK {
					if !starts[p] {
						rviol[i] = append(rviol[i], rv{"C05/clean/pos-not-token-start/" + tn, fmt.Sprintf("%s at %s: Pos=%d is not the first byte of a token", tn, v.Path, p)})
					}
					if !ends[e] {
						rviol[i] = append(rviol[i], rv{"C05/clean/end-not-token-end/" + tn, fmt.Sprintf("%s at %s: End=%d is not one past the last byte of a token", tn, v.Path, e)})
					}
				}
			} else if !(0 <= p && p <= e && e <= L) {
				rviol[i] = append(rviol[i], rv{"C05/errors/range/" + tn, fmt.Sprintf("%s at %s: Pos=%d End=%d len=%d", tn, v.Path, p, e, L)})
			}
		}
		hasBadDesc := make([]bool, len(vs))
		for i := len(vs) - 1; i >= 0; i-- {
			if (len(rviol[i]) > 0 || hasBadDesc[i]) && vs[i].Parent >= 0 {
				hasBadDesc[vs[i].Parent] = true
			}
		}
		for i := range vs {
			if !hasBadDesc[i] {
				for _, x := range rviol[i] {
					viol[x.sig] = x.detail
				}
			}
		}
		// nesting and order
		last := map[int]int{} // parent index -> index of previous child
		for i, v := range vs {
			if v.Parent < 0 || !pes[i].ok || !pes[v.Parent].ok {
				continue
			}
			par := vs[v.Parent]
			ptn := oracle.TypeName(par.Node)
			f := fieldOfPath(v.Path)
			mode := "errors"
			if clean {
				mode = "clean"
			}
			if pes[i].p < pes[v.Parent].p || pes[i].e > pes[v.Parent].e {
				viol["C05/"+mode+"/nesting/"+ptn+"."+f] = fmt.Sprintf("child %s at %s [%d,%d) is outside parent %s [%d,%d)", oracle.TypeName(v.Node), v.Path, pes[i].p, pes[i].e, ptn, pes[v.Parent].p, pes[v.Parent].e)
			}
			if j, ok := last[v.Parent]; ok && pes[j].ok {
				if _, isCT := par.Node.(*ast.CreateTable); !isCT && pes[i].p < pes[j].e {
					viol["C05/"+mode+"/order/"+ptn+"."+fieldOfPath(vs[j].Path)+"-"+f] = fmt.Sprintf("sibling %s [%d,%d) starts before previous sibling %s ends [%d,%d) under %s", v.Path, pes[i].p, pes[i].e, vs[j].Path, pes[j].p, pes[j].e, ptn)
				}
			}
			last[v.Parent] = i
		}
	}
	return viol
}

// ---------------------------------------------------------------------------
// C09

func countBad(roots []ast.Node) (wrappers, badNodes int) {
	for _, v := range allNodes(roots) {
		if isBadWrapper(v.Node) {
			wrappers++
		}
		if _, ok := v.Node.(*ast.BadNode); ok {
			badNodes++
		}
	}
	return
}

func checkErrorContract(e *Entry, s string, res ParseResult) map[string]string {
	viol := map[string]string{}
	if res.Panic != nil {
		// a panic while the error's Position is being resolved: the error was raised with a range outside the
		// input, so the element "with 0 <= Pos <= End <= len(input)" is never delivered (other panics: C03)
		if strings.Contains(res.Stack, "token.(*File).Position") || strings.Contains(res.Stack, "token.(*File).ResolvePos") {
			viol["C09/error-position-panics/"+e.Name] = fmt.Sprintf("%s(%q): resolving the position of an error panics: %v", e.Name, s, res.Panic)
		}
		return viol
	}
	wr, bn := countBad(res.Roots)
	if res.Err == nil {
		// the whole input was consumed, so every token of it was lexed: a lexical error (R1) cannot have gone unnoticed
		if ref := lexref.Lex(s); !ref.OK {
			viol["C09/lexical-error-accepted/"+e.Name] = fmt.Sprintf("%s(%q): nil error although the input has a lexical error (%s)", e.Name, s, ref.Why)
		}
		if wr+bn > 0 {
			viol["C09/bad-node-without-error/"+e.Name] = fmt.Sprintf("%s(%q): nil error but the tree contains %d Bad node(s)", e.Name, s, wr)
		}
		// whole input consumed: if dropping the last token gives the identical result
		// (same tree with the same positions, nil error), that token was ignored.
		// Exempt: the documented unrecorded trailing "," of a select list and ";" for lists.
		if _, _, toks, ok := tokenBounds(s); ok && len(toks) > 0 {
			lt := toks[len(toks)-1]
			exempt := lt.Kind == ";" && !e.Single
			if lt.Kind == "," && len(toks) > 1 {
				// only where a select list ends right before it
				prevEnd := toks[len(toks)-2].End
				for _, v := range allNodes(res.Roots) {
					var items []ast.SelectItem
					switch sel := v.Node.(type) {
					case *ast.Select:
						items = sel.Results
					case *ast.PipeSelect:
						items = sel.Results
					}
					if len(items) > 0 {
						if _, end, ok := safePosEnd(items[len(items)-1]); ok && end == prevEnd {
							exempt = true
						}
					}
				}
			}
			if !exempt {
				res2 := e.Call(s[:lt.Pos])
				if res2.Panic == nil && res2.Err == nil && len(res2.Roots) == len(res.Roots) && reflect.DeepEqual(res.Roots, res2.Roots) {
					rt := "none"
					if len(res.Roots) > 0 {
						rt = oracle.TypeName(res.Roots[len(res.Roots)-1])
					}
					viol["C09/unconsumed-input-accepted/"+e.Name+"/"+rt] = fmt.Sprintf("%s(%q): nil error, and removing the last token %s gives the identical tree: the token was not consumed", e.Name, s, lt.Kind)
				}
			}
		}
		return viol
	}
	me, ok := res.Err.(memefish.MultiError)
	if !ok {
		viol["C09/error-not-multierror/"+e.Name] = fmt.Sprintf("%s(%q): the non-nil error is a %T, not a MultiError", e.Name, s, res.Err)
		return viol
	}
	if len(me) < bn {
		viol["C09/fewer-errors-than-bad-nodes/"+e.Name] = fmt.Sprintf("%s(%q): %d errors for %d BadNode placeholders", e.Name, s, len(me), bn)
	}
	for _, x := range me {
		if x == nil {
			continue
		}
		if strings.TrimSpace(x.Message) == "" {
			viol["C09/empty-message"] = fmt.Sprintf("%s(%q): error without message", e.Name, s)
		}
		if x.Position == nil {
			viol["C09/nil-position"] = fmt.Sprintf("%s(%q): error %q without Position", e.Name, s, x.Message)
			continue
		}
		if p := x.Position; !(0 <= p.Pos && p.Pos <= p.End && int(p.End) <= len(s)) {
			viol["C09/error-position-range/"+stripDigits(firstWords(x.Message, 3))] = fmt.Sprintf("%s(%q): error %q has Pos=%d End=%d len=%d", e.Name, s, x.Message, p.Pos, p.End, len(s))
		}
	}
	return viol
}

func firstWords(s string, n int) string {
	f := strings.Fields(s)
	if len(f) > n {
		f = f[:n]
	}
	return strings.Join(f, " ")
}

// ---------------------------------------------------------------------------
// C10

type rtok struct {
	kind     token.TokenKind
	raw      string
	pos, end int
}

// lexState is the lexer's control state before a token is read.
type lexState struct {
	cur token.TokenKind
	dot bool
}

// recoveryLex lexes the whole input with the recovery-mode step (overlay hook).
func recoveryLex(s string) []rtok {
	out, _ := recoveryLexFrom(s, lexState{})
	return out
}

// recoveryLexFrom lexes s in recovery mode starting in control state st; it also
// returns the control state before each token.
func recoveryLexFrom(s string, st lexState) ([]rtok, []lexState) {
	l := &memefish.Lexer{File: &token.File{Buffer: s}}
	l.VerifSetCtl(st.cur, st.dot, 0)
	var out []rtok
	var states []lexState
	for i := 0; i < len(s)+2; i++ {
		_, cur, dot, _ := l.VerifCtl()
		l.VerifStepRecover()
		if l.Token.Kind == token.TokenEOF {
			break
		}
		states = append(states, lexState{cur, dot})
		out = append(out, rtok{l.Token.Kind, l.Token.Raw, int(l.Token.Pos), int(l.Token.End)})
	}
	return out, states
}

func checkBadNodes(e *Entry, s string, res ParseResult) (viol map[string]string, nbad int) {
	viol = map[string]string{}
	if res.Panic != nil {
		return
	}
	var ref []rtok
	var refStates []lexState
	type span struct {
		p, e int
		w    string
	}
	var spans []span
	for _, root := range res.Roots {
		vs := oracle.Preorder(root)
		for i, v := range vs {
			b, ok := v.Node.(*ast.BadNode)
			if !ok {
				continue
			}
			nbad++
			wrapper := "BadNode"
			if v.Parent >= 0 {
				wrapper = oracle.TypeName(vs[v.Parent].Node)
			}
			if ref == nil {
				ref, refStates = recoveryLexFrom(s, lexState{})
			}
			np, ne := int(b.NodePos), int(b.NodeEnd)
			if np < 0 || ne < np || ne > len(s) {
				viol["C10/range/"+wrapper] = fmt.Sprintf("%s(%q): Bad node range [%d,%d)", e.Name, s, np, ne)
				continue
			}
			spans = append(spans, span{np, ne, wrapper})
			// skipped tokens were not consumed: the Bad node's range overlaps no node outside its own ancestor chain
			if ne > np {
				anc := map[int]bool{}
				for j := i; j >= 0; j = vs[j].Parent {
					anc[j] = true
				}
				for j, w := range vs {
					if anc[j] || oracle.IsNilNode(w.Node) {
						continue
					}
					// descendants of the Bad node's wrapper chain are not expected (a BadNode is a leaf); anything else must be disjoint
					isDesc := false
					for q := w.Parent; q >= 0; q = vs[q].Parent {
						if q == i {
							isDesc = true
							break
						}
					}
					if isDesc {
						continue
					}
					if _, other := w.Node.(*ast.BadNode); other {
						continue // Bad-vs-Bad overlap is reported separately
					}
					wp, we, ok := safePosEnd(w.Node)
					if !ok || wp < 0 || we <= wp || we > len(s) {
						continue
					}
					// only nodes that do not contain the Bad node entirely (an enclosing sibling subtree cannot exist: ancestors were excluded)
					if wp < ne && np < we {
						viol["C10/overlaps-consumed-node/"+wrapper+"/"+oracle.TypeName(w.Node)] = fmt.Sprintf("%s(%q): Bad node [%d,%d) under %s overlaps %s at %s [%d,%d), which is not one of its ancestors: a skipped token was also consumed", e.Name, s, np, ne, wrapper, oracle.TypeName(w.Node), w.Path, wp, we)
						break
					}
				}
			}
			if len(b.Tokens) == 0 {
				if np != ne {
					viol["C10/empty-tokens-nonempty-range/"+wrapper] = fmt.Sprintf("%s(%q): Bad node [%d,%d) has no tokens", e.Name, s, np, ne)
				}
			} else {
				if int(b.Tokens[0].Pos) != np {
					viol["C10/pos-not-first-token/"+wrapper] = fmt.Sprintf("%s(%q): NodePos=%d, first token at %d", e.Name, s, np, b.Tokens[0].Pos)
				}
				if int(b.Tokens[len(b.Tokens)-1].End) != ne {
					viol["C10/end-not-last-token/"+wrapper] = fmt.Sprintf("%s(%q): NodeEnd=%d, last token ends at %d", e.Name, s, ne, b.Tokens[len(b.Tokens)-1].End)
				}
			}
			// tokens of the input inside the range, in order
			var want []rtok
			for _, t := range ref {
				if t.pos >= np && t.end <= ne && t.raw != "" {
					want = append(want, t)
				}
			}
			var got []rtok
			for _, t := range b.Tokens {
				if t == nil {
					viol["C10/nil-token/"+wrapper] = "nil token in Tokens"
					continue
				}
				if t.Raw == "" {
					continue // the empty <bad> pseudo token that marks an unclosed comment has no spelling
				}
				got = append(got, rtok{t.Kind, t.Raw, int(t.Pos), int(t.End)})
			}
			if d := diffToks(want, got); d != "" {
				viol["C10/tokens-differ/"+wrapper] = fmt.Sprintf("%s(%q): Bad node [%d,%d): %s", e.Name, s, np, ne, d)
			}
			// SQL() re-lexes to the same kinds and spellings
			var sql string
			if pv, _ := explore.Try(func() { sql = b.SQL() }); pv == nil {
				// re-lex in the control state the lexer was in where the Bad node starts
				// (after "ident ." a digit run is an identifier; a Bad node's text cannot carry that context)
				var st lexState
				for i, t := range ref {
					if t.pos >= np {
						st = refStates[i]
						break
					}
				}
				re, _ := recoveryLexFrom(sql, st)
				if !sameKindsRaws(re, got) {
					viol["C10/sql-relex/"+wrapper] = fmt.Sprintf("%s(%q): Bad node SQL() = %q re-lexes to %s, Tokens are %s", e.Name, s, sql, fmtToks(re), fmtToks(got))
				}
			}
		}
	}
	// Bad nodes do not share tokens
	sort.Slice(spans, func(i, j int) bool { return spans[i].p < spans[j].p })
	for i := 1; i < len(spans); i++ {
		if spans[i].p < spans[i-1].e {
			viol["C10/overlap/"+spans[i-1].w+"-"+spans[i].w] = fmt.Sprintf("%s(%q): Bad nodes [%d,%d) and [%d,%d) overlap", e.Name, s, spans[i-1].p, spans[i-1].e, spans[i].p, spans[i].e)
		}
	}
	return
}

func diffToks(want, got []rtok) string {
	if len(want) != len(got) {
		return fmt.Sprintf("input has %d tokens in the range %s, Tokens has %d %s", len(want), fmtToks(want), len(got), fmtToks(got))
	}
	for i := range want {
		if want[i] != got[i] {
			return fmt.Sprintf("token %d: input %s %q [%d,%d), recorded %s %q [%d,%d)", i, want[i].kind, want[i].raw, want[i].pos, want[i].end, got[i].kind, got[i].raw, got[i].pos, got[i].end)
		}
	}
	return ""
}

func sameKindsRaws(a, b []rtok) bool {
	if len(a) != len(b) {
		return false
	}
	for i := range a {
		if a[i].raw != b[i].raw {
			return false
		}
		// a recorded <bad> token may be bad only because of what follows it outside the
		// Bad node ("1" glued to "UNION"); stand-alone its spelling lexes to a proper kind.
		if a[i].kind != b[i].kind && b[i].kind != token.TokenBad {
			return false
		}
	}
	return true
}

func fmtToks(t []rtok) string {
	var p []string
	for _, x := range t {
		p = append(p, fmt.Sprintf("%s:%q", x.kind, x.raw))
	}
	return "[" + strings.Join(p, " ") + "]"
}
