package checks

import (
	"fmt"
	"strings"
	"unicode/utf8"

	"github.com/cloudspannerecosystem/memefish"
	"github.com/cloudspannerecosystem/memefish/token"

	"verif/explore"
	"verif/lexref"
	"verif/spaces"
)

// fullLex lexes s with the public lexer and keeps complete tokens (incl. <eof>).
func fullLex(s string) (toks []token.Token, l *memefish.Lexer, err error, pv any) {
	l = &memefish.Lexer{File: &token.File{Buffer: s}}
	pv, _ = explore.Try(func() {
		for {
			if e := l.NextToken(); e != nil {
				err = e
				return
			}
			toks = append(toks, l.Token)
			if l.Token.Kind == token.TokenEOF {
				return
			}
			if len(toks) > len(s)+2 {
				err = fmt.Errorf("lexer does not advance")
				return
			}
		}
	})
	return
}

// byteSpaces runs body over all S1 alphabets and the S2 lexeme space.
// lexByteContexts: text before and after one arbitrary byte.
var lexByteContexts = [][2]string{{"a ", " b"}, {"a", "b"}, {"1", "2"}, {"'", "'"}, {"\"", "\""}, {"`", "`"}, {"b'", "'"}, {"r'", "'"}, {", "}, {"'\\", "'"}, {"b'\\", "'"}, {"`\\", "`"},
	{"/*", "*/"}, {"--", "\n"}, {"#", "\nb"}, {"a.", ""}, {"a. ", "b"}, {"@", ""}, {"@{", "}"}, {"0x", ""}, {"1e", "1"}, {".", "5"}, {"a ", ""}, {"", " a"}, {"'\\x4", "'"}, {"'\\u004", "'"}, {"'\\1", "1'"}}

func byteSpaces(r *explore.Run, opt explore.Options, body func(c *explore.Ctx, s string)) {
	for _, a := range spaces.S1 {
		k := a.Quick
		if r.Tier == "thorough" {
			k = a.Thorough
		}
		o := opt
		o.Space = "S1/" + a.Name
		o.Bound = fmt.Sprintf("all strings of length<=%d over %d symbols (%d)", k, len(a.Syms), spaces.Count(len(a.Syms), k))
		o.MaxDev = -1
		o.SplitLen = 2
		syms := a.Syms
		r.Explore(o, func(c *explore.Ctx) {
			s := spaces.Str(c, syms, k)
			body(c, s)
		})
	}
	// S1b: every string of at most 2 arbitrary bytes, and every byte inside each lexical context
	ob := opt
	ob.Space = "S1b/all-bytes"
	ob.MaxDev = -1
	ob.SplitLen = 1
	ob.Bound = fmt.Sprintf("every string of 0,1,2 arbitrary bytes (65793); every byte value in %d lexical contexts", len(lexByteContexts))
	r.Explore(ob, func(c *explore.Ctx) {
		k := c.ChooseFree(257 + len(lexByteContexts))
		switch {
		case k == 0:
			body(c, "")
		case k <= 256:
			b1 := byte(k - 1)
			k2 := c.ChooseFree(257)
			if k2 == 0 {
				body(c, string([]byte{b1}))
			} else {
				body(c, string([]byte{b1, byte(k2 - 1)}))
			}
		default:
			ctx := lexByteContexts[k-257]
			b := byte(c.ChooseFree(256))
			body(c, ctx[0]+string([]byte{b})+ctx[1])
		}
	})
	lexemeSpace(r, opt, body)
	// S2b: every literal prefix x quote form x body (each escape kind, valid and invalid) x what follows
	o := opt
	o.Space = "S2b/literal-matrix"
	o.MaxDev = -1
	o.SplitLen = 2
	o.Bound = fmt.Sprintf("%d prefixes x %d quote forms x %d bodies x %d suffixes", len(spaces.LitPrefixes), len(spaces.LitQuotes), len(spaces.LitBodies), len(spaces.LitSuffixes))
	r.Explore(o, func(c *explore.Ctx) {
		p := spaces.LitPrefixes[c.ChooseFree(len(spaces.LitPrefixes))]
		q := spaces.LitQuotes[c.ChooseFree(len(spaces.LitQuotes))]
		b := spaces.LitBodies[c.ChooseFree(len(spaces.LitBodies))]
		sfx := spaces.LitSuffixes[c.ChooseFree(len(spaces.LitSuffixes))]
		body(c, p+q+b+q+sfx)
	})
}

// lexemeSpace is S2: sequences of lexemes glued with "", " ", "\n".
func lexemeSpace(r *explore.Run, opt explore.Options, body func(c *explore.Ctx, s string)) {
	n := 2
	if r.Tier == "thorough" {
		n = 3
	}
	L := spaces.Lexemes
	o := opt
	o.Space = "S2/lexemes"
	o.Bound = fmt.Sprintf("all sequences of <=%d of %d lexemes x glue{'',SP,LF} between them", n, len(L))
	o.MaxDev = -1
	o.SplitLen = 2
	r.Explore(o, func(c *explore.Ctx) {
		var b strings.Builder
		for i := 0; i < n; i++ {
			k := c.ChooseFree(len(L) + 1)
			if k == 0 {
				break
			}
			if i > 0 {
				b.WriteString(spaces.Glue[c.ChooseFree(len(spaces.Glue))])
			}
			b.WriteString(L[k-1])
		}
		body(c, b.String())
	})
}

func isAllSpace(s string) bool {
	for len(s) > 0 {
		r, n := utf8.DecodeRuneInString(s)
		if r == utf8.RuneError && n <= 1 || !lexref.IsSpaceRune(r) {
			return false
		}
		s = s[n:]
	}
	return true
}

// C13: lexing is lossless.
func C13(r *explore.Run) {
	r.Rule = "every string of the S1 byte alphabets up to the stated length and every S2 lexeme sequence is lexed by the public Lexer; " +
		"non-trivial = accepted input with >=2 significant tokens or >=1 comment; distinct by token-kind/extent sequence"
	r.Assume = []string{"R1 (lexref) decides what a complete comment is", "continuation check uses the overlay accessor for (lastTokenKind, dotIdent, cursor)"}
	byteSpaces(r, explore.Options{}, func(c *explore.Ctx, s string) {
		c.Input(s)
		toks, l, err, pv := fullLex(s)
		c.Sample(fmt.Sprintf("%q", s))
		if pv != nil || err != nil {
			c.OutcomeStr("reject")
			c.Count("rejected", 1)
			return
		}
		c.Count("accepted", 1)
		viol := func(clause, detail string) {
			c.Violation("C13/"+clause, s, detail)
		}
		// exactly one eof, last
		if n := len(toks); n == 0 || toks[n-1].Kind != token.TokenEOF {
			viol("eof-last", "stream does not end with <eof>")
			return
		}
		var rebuilt strings.Builder
		prevEnd := 0
		var obs strings.Builder
		ncomments := 0
		for i, t := range toks {
			if t.Kind == token.TokenEOF && i != len(toks)-1 {
				viol("eof-once", "<eof> before the end")
			}
			for _, cm := range t.Comments {
				ncomments++
				rebuilt.WriteString(cm.Space)
				rebuilt.WriteString(cm.Raw)
				if !isAllSpace(cm.Space) {
					viol("space-only-ws", fmt.Sprintf("comment space %q", cm.Space))
				}
				if int(cm.Pos) < prevEnd || cm.End < cm.Pos || int(cm.End) > len(s) {
					viol("ranges-increasing", fmt.Sprintf("comment range [%d,%d) after %d", cm.Pos, cm.End, prevEnd))
				} else if s[cm.Pos:cm.End] != cm.Raw {
					viol("raw-is-slice", fmt.Sprintf("comment raw %q != input[%d:%d]", cm.Raw, cm.Pos, cm.End))
				}
				if int(cm.Pos) != prevEnd+len(cm.Space) {
					viol("tiling", fmt.Sprintf("comment at %d, expected %d", cm.Pos, prevEnd+len(cm.Space)))
				}
				if !lexref.IsCompleteComment(cm.Raw) {
					viol("comment-complete", fmt.Sprintf("comment %q is not a complete comment", cm.Raw))
				} else if !strings.HasPrefix(cm.Raw, "/*") && !strings.HasSuffix(cm.Raw, "\n") && int(cm.End) != len(s) {
					viol("comment-complete", fmt.Sprintf("line comment %q stops before end of line", cm.Raw))
				}
				prevEnd = int(cm.End)
			}
			rebuilt.WriteString(t.Space)
			rebuilt.WriteString(t.Raw)
			if !isAllSpace(t.Space) {
				viol("space-only-ws", fmt.Sprintf("token space %q", t.Space))
			}
			if int(t.Pos) < prevEnd || t.End < t.Pos || int(t.End) > len(s) {
				viol("ranges-increasing", fmt.Sprintf("token range [%d,%d) after %d", t.Pos, t.End, prevEnd))
			} else if s[t.Pos:t.End] != t.Raw {
				viol("raw-is-slice", fmt.Sprintf("token raw %q != input[%d:%d]", t.Raw, t.Pos, t.End))
			}
			if int(t.Pos) != prevEnd+len(t.Space) {
				viol("tiling", fmt.Sprintf("token at %d, expected %d", t.Pos, prevEnd+len(t.Space)))
			}
			if t.Kind != token.TokenEOF && t.End == t.Pos {
				viol("no-empty-token", fmt.Sprintf("empty token kind %s at %d", t.Kind, t.Pos))
			}
			if t.Kind == token.TokenBad {
				viol("no-bad-token", "public lexer returned a <bad> token without error")
			}
			prevEnd = int(t.End)
			fmt.Fprintf(&obs, "%s@%d-%d;", t.Kind, t.Pos, t.End)
		}
		if rebuilt.String() != s {
			viol("rebuild", fmt.Sprintf("rebuilt %q", rebuilt.String()))
		}
		if e := toks[len(toks)-1]; int(e.Pos) != len(s) || int(e.End) != len(s) {
			viol("eof-at-len", fmt.Sprintf("<eof> at [%d,%d), len %d", e.Pos, e.End, len(s)))
		}
		// NextToken at end keeps returning <eof>
		for k := 0; k < 3; k++ {
			var e error
			pv, _ := explore.Try(func() { e = l.NextToken() })
			if pv != nil || e != nil || l.Token.Kind != token.TokenEOF || int(l.Token.Pos) != len(s) || int(l.Token.End) != len(s) || l.Token.Raw != "" {
				viol("eof-sticky", fmt.Sprintf("call %d after <eof>: kind=%s pos=%d err=%v panic=%v", k+1, l.Token.Kind, l.Token.Pos, e, pv))
				break
			}
		}
		// continuation: lexing the remainder from the control state reached at each
		// token boundary yields the same remaining tokens.
		continuation(c, s, toks)
		c.OutcomeStr(obs.String())
		if len(toks) >= 3 || ncomments > 0 {
			c.Nontrivial(explore.Hash(obs.String()))
		}
	})
}

// continuation re-lexes from every token boundary with a fresh lexer put into
// the control state recorded there, and compares with the original stream.
func continuation(c *explore.Ctx, s string, toks []token.Token) {
	l := &memefish.Lexer{File: &token.File{Buffer: s}}
	type st struct {
		cur token.TokenKind
		dot bool
		pos int
	}
	var states []st
	for range toks {
		if err := l.NextToken(); err != nil {
			return
		}
		_, cur, dot, pos := l.VerifCtl()
		states = append(states, st{cur, dot, pos})
	}
	for i := 0; i+1 < len(toks); i++ {
		f := &memefish.Lexer{File: &token.File{Buffer: s}}
		f.VerifSetCtl(states[i].cur, states[i].dot, states[i].pos)
		for j := i + 1; j < len(toks); j++ {
			if err := f.NextToken(); err != nil {
				c.Violation("C13/continuation", s, fmt.Sprintf("resuming after token %d fails: %v", i, err))
				return
			}
			a, b := f.Token, toks[j]
			if a.Kind != b.Kind || a.Pos != b.Pos || a.End != b.End || a.Raw != b.Raw || a.AsString != b.AsString || a.Space != b.Space || len(a.Comments) != len(b.Comments) {
				c.Violation("C13/continuation", s, fmt.Sprintf("resuming after token %d: token %d is %s %q@%d, was %s %q@%d", i, j, a.Kind, a.Raw, a.Pos, b.Kind, b.Raw, b.Pos))
				return
			}
		}
		c.Count("continuations", 1)
	}
}

// refClass classifies a token kind for signatures.
func refClass(k string) string {
	switch k {
	case "<ident>", "<param>", "<int>", "<float>", "<string>", "<bytes>", "<eof>", "<bad>":
		return k
	}
	if len(k) > 0 && (k[0] >= 'A' && k[0] <= 'Z') {
		return "keyword"
	}
	return "punct"
}

type lexItem struct {
	kind     string // token kind or "comment"
	pos, end int
	value    string
	base     int
}

func (i lexItem) cls() string {
	if i.kind == "comment" {
		return "comment"
	}
	return refClass(i.kind)
}

// compareLex compares implementation and R1 on s; returns signature+detail or "".
// The signature names the class of the REFERENCE item at the first difference
// (or the reference's rejection reason), so one root cause gives one signature.
func compareLex(s string) (sig, detail, obs string) {
	ref := lexref.Lex(s)
	toks, _, err, pv := fullLex(s)
	if pv != nil {
		// a panic is an abnormal rejection; totality is C03's business
		err = fmt.Errorf("panic: %v", pv)
	}
	if !ref.OK {
		if err == nil {
			return "C14/accepts-invalid/" + ref.Why, fmt.Sprintf("reference rejects (%s at %d), implementation accepts", ref.Why, ref.ErrPos), ""
		}
		return "", "", "reject:" + ref.Why
	}
	var ri, ii []lexItem
	ci := 0
	for _, t := range ref.Toks {
		for ci < len(ref.Comments) && ref.Comments[ci].Pos < t.Pos {
			ri = append(ri, lexItem{"comment", ref.Comments[ci].Pos, ref.Comments[ci].End, "", 0})
			ci++
		}
		ri = append(ri, lexItem{t.Kind, t.Pos, t.End, t.Value, t.Base})
	}
	for _, t := range toks {
		for _, cm := range t.Comments {
			ii = append(ii, lexItem{"comment", int(cm.Pos), int(cm.End), "", 0})
		}
		ii = append(ii, lexItem{string(t.Kind), int(t.Pos), int(t.End), t.AsString, t.Base})
	}
	var ob strings.Builder
	for i := 0; i < len(ri); i++ {
		a := ri[i]
		if i >= len(ii) {
			if err != nil {
				return "C14/rejects-valid/ref=" + a.cls(), fmt.Sprintf("reference accepts (item %d is %s[%d,%d)), implementation: %v", i, a.kind, a.pos, a.end, err), ""
			}
			return "C14/missing-item/ref=" + a.cls(), fmt.Sprintf("implementation stream ends before reference item %d %s[%d,%d)", i, a.kind, a.pos, a.end), ""
		}
		b := ii[i]
		fmt.Fprintf(&ob, "%s@%d-%d;", a.kind, a.pos, a.end)
		if a.kind != b.kind || a.pos != b.pos || a.end != b.end {
			return "C14/boundary-or-kind/ref=" + a.cls(),
				fmt.Sprintf("item %d: reference %s[%d,%d) implementation %s[%d,%d)", i, a.kind, a.pos, a.end, b.kind, b.pos, b.end), ""
		}
		switch a.kind {
		case "<ident>", "<param>", "<string>", "<bytes>":
			if a.value != b.value {
				return "C14/value/" + a.kind, fmt.Sprintf("item %d %s: reference value %q implementation %q", i, a.kind, a.value, b.value), ""
			}
		case "<int>":
			if a.base != b.base {
				return "C14/base", fmt.Sprintf("item %d: reference base %d implementation %d", i, a.base, b.base), ""
			}
		}
	}
	if err != nil {
		return "C14/rejects-valid/ref=after-eof", fmt.Sprintf("reference accepts, implementation: %v", err), ""
	}
	if len(ii) != len(ri) {
		return "C14/extra-item", fmt.Sprintf("reference %d items, implementation %d", len(ri), len(ii)), ""
	}
	return "", "", ob.String()
}

// C14: the lexer conforms to the lexical specification (differential against R1),
// plus an explicit-state search of the inter-token control state.
func C14(r *explore.Run) {
	r.Level = "model_checking"
	r.Rule = "implementation token stream (kinds, extents, decoded values, comments) or rejection compared with the reference lexer R1 on every S1 string and S2 lexeme sequence; " +
		"non-trivial = accepted input with >=2 tokens, distinct by token stream; plus BFS over the lexer's control states (class of last token kind x dotIdent) with one lexeme per transition"
	r.Assume = []string{"R1 is my reading of the Spanner lexical-structure page and ZetaSQL's dot-identifier rule; a mistake shared by R1 and memefish is invisible"}
	byteSpaces(r, explore.Options{}, func(c *explore.Ctx, s string) {
		c.Input(s)
		c.Sample(fmt.Sprintf("%q", s))
		sig, detail, obs := compareLex(s)
		if sig != "" {
			c.Violation(sig, s, detail)
			return
		}
		c.OutcomeStr(obs)
		if strings.Count(obs, ";") >= 3 {
			c.Nontrivial(explore.Hash(obs))
		}
	})
	lexStateSearch(r)
}

// lexStateSearch: explicit-state BFS. A state is the lexer's control state
// (lastTokenKind class, dotIdent) reached after a witness prefix; a transition
// appends one lexeme (with a separating space). In every state the token(s)
// produced for the lexeme must equal what R1 produces for prefix+lexeme, and
// two witness prefixes of the same state must produce identical results.
func lexStateSearch(r *explore.Run) {
	if r.Replaying() {
		return
	}
	type stateKey struct {
		cls string
		dot bool
	}
	classOf := func(k token.TokenKind) string {
		switch k {
		case token.TokenIdent, token.TokenParam, ")", "]":
			return "identlike"
		case ".":
			return "dot"
		case "":
			return "start"
		}
		return "other"
	}
	L := spaces.Lexemes
	witnesses := map[stateKey][]string{}
	order := []stateKey{}
	add := func(k stateKey, w string) bool {
		ws := witnesses[k]
		for _, x := range ws {
			if x == w {
				return false
			}
		}
		if len(ws) >= 2 {
			return false
		}
		if len(ws) == 0 {
			order = append(order, k)
		}
		witnesses[k] = append(ws, w)
		return true
	}
	ctl := func(s string) (stateKey, []token.Token, bool) {
		toks, l, err, pv := fullLex(s)
		if err != nil || pv != nil {
			return stateKey{}, nil, false
		}
		// a witness ending inside a line comment (no newline yet) is in a different
		// lexical situation than the control state describes: not a witness.
		if rr := lexref.Lex(s); rr.OK && len(rr.Comments) > 0 {
			if lc := rr.Comments[len(rr.Comments)-1]; lc.End == len(s) && !strings.HasSuffix(s, "\n") && !strings.HasSuffix(s, "*/") {
				return stateKey{}, nil, false
			}
		}
		// state before <eof> was fetched: last significant token
		_ = l
		last := token.TokenKind("")
		if len(toks) >= 2 {
			last = toks[len(toks)-2].Kind
		}
		// dotIdent after the last significant token: replay to just before eof
		f := &memefish.Lexer{File: &token.File{Buffer: s}}
		dot := false
		for i := 0; i < len(toks)-1; i++ {
			f.NextToken()
			_, _, dot, _ = f.VerifCtl()
		}
		return stateKey{classOf(last), dot}, toks, true
	}
	add(stateKey{"start", false}, "")
	var transitions, traces int64
	frontier := []string{""}
	seenPrefix := map[string]bool{"": true}
	for len(frontier) > 0 {
		var next []string
		for _, w := range frontier {
			from, _, ok := ctl(w)
			if !ok {
				continue
			}
			for _, glue := range []string{"", " "} {
				for _, lx := range L {
					s := w + glue + lx
					transitions++
					sig, detail, _ := compareLex(s)
					traces++
					if sig != "" {
						r.AddViolation(sig, s, detail+" (found from control state "+from.cls+")")
						continue
					}
					to, _, ok := ctl(s)
					if !ok {
						continue
					}
					if add(to, s) && !seenPrefix[s] {
						seenPrefix[s] = true
						next = append(next, s)
					}
				}
			}
		}
		frontier = next
	}
	// successor agreement between witnesses of the same state
	for _, k := range order {
		ws := witnesses[k]
		if len(ws) < 2 {
			continue
		}
		for _, glue := range []string{"", " "} {
			for _, lx := range L {
				var res [2]string
				for i, w := range ws[:2] {
					s := w + glue + lx
					toks, _, err, pv := fullLex(s)
					base, _, _, _ := fullLex(w)
					nb := len(base) - 1
					if err != nil || pv != nil {
						res[i] = "reject"
						continue
					}
					var b strings.Builder
					for _, t := range toks[nb:] {
						fmt.Fprintf(&b, "%s:%q:%q;", t.Kind, t.Raw, t.AsString)
					}
					res[i] = b.String()
				}
				transitions++
				// when glue=="" the lexeme may merge with the witness's last token, which
				// legitimately depends on that token's text, not only on the state.
				if glue == " " && res[0] != res[1] {
					r.AddViolation("C14/state-not-sufficient/"+k.cls, ws[0]+" | "+ws[1]+" + "+lx,
						fmt.Sprintf("same control state, different continuation: %s vs %s", res[0], res[1]))
				}
			}
		}
	}
	r.States = int64(len(order))
	r.Transitions = transitions
	r.Traces = traces
	var desc []string
	for _, k := range order {
		desc = append(desc, fmt.Sprintf("(%s,dot=%v) witnesses=%q", k.cls, k.dot, witnesses[k]))
	}
	r.Extra("control_states", desc)
	fmt.Printf("state-search states=%d transitions=%d traces=%d\n", len(order), transitions, traces)
}
