package checks

import (
	"fmt"
	"reflect"
	"regexp"
	"sort"
	"strings"

	"github.com/cloudspannerecosystem/memefish/ast"
	"github.com/cloudspannerecosystem/memefish/token"

	"verif/explore"
	"verif/oracle"
)

// NodeZeroes is filled by the generated file zz_nodes_gen.go (one zero value per
// node struct of the working tree's ast/ast.go).
var NodeZeroes []ast.Node

var nodeIface = reflect.TypeOf((*ast.Node)(nil)).Elem()
var posT = reflect.TypeOf(token.Pos(0))

type shapeBuilder struct {
	types map[string]reflect.Type // struct name -> struct type
	impls map[reflect.Type][]reflect.Type
}

func newShapeBuilder() *shapeBuilder {
	b := &shapeBuilder{types: map[string]reflect.Type{}, impls: map[reflect.Type][]reflect.Type{}}
	for _, z := range NodeZeroes {
		t := reflect.TypeOf(z).Elem()
		b.types[t.Name()] = t
	}
	return b
}

// nodeFieldCount: number of node-typed fields (to prefer leaf implementations).
func (b *shapeBuilder) nodeFieldCount(t reflect.Type) int {
	n := 0
	for i := 0; i < t.NumField(); i++ {
		ft := t.Field(i).Type
		if ft.Implements(nodeIface) || ft.Kind() == reflect.Slice && ft.Elem().Implements(nodeIface) {
			n++
		}
	}
	return n
}

// implsOf lists pointer types implementing the interface type it, leaf-most first.
func (b *shapeBuilder) implsOf(it reflect.Type) []reflect.Type {
	if r, ok := b.impls[it]; ok {
		return r
	}
	var out []reflect.Type
	for _, t := range b.types {
		if reflect.PointerTo(t).Implements(it) {
			out = append(out, t)
		}
	}
	sort.Slice(out, func(i, j int) bool {
		ci, cj := b.nodeFieldCount(out[i]), b.nodeFieldCount(out[j])
		if ci != cj {
			return ci < cj
		}
		return out[i].Name() < out[j].Name()
	})
	b.impls[it] = out
	return out
}

// stub builds a default instance of struct type t: positions increasing, children
// present down to depth, slices of length 1.
func (b *shapeBuilder) stub(t reflect.Type, depth int, ctr *int) reflect.Value {
	p := reflect.New(t)
	v := p.Elem()
	for i := 0; i < t.NumField(); i++ {
		f := t.Field(i)
		if !f.IsExported() {
			continue
		}
		b.setDefault(v.Field(i), f.Type, depth, ctr)
	}
	return p
}

func (b *shapeBuilder) nodeValue(ft reflect.Type, depth int, ctr *int) reflect.Value {
	switch ft.Kind() {
	case reflect.Pointer:
		return b.stub(ft.Elem(), depth-1, ctr)
	case reflect.Interface:
		im := b.implsOf(ft)
		if len(im) == 0 {
			return reflect.Zero(ft)
		}
		return b.stub(im[0], depth-1, ctr)
	}
	return reflect.Zero(ft)
}

func (b *shapeBuilder) setDefault(fv reflect.Value, ft reflect.Type, depth int, ctr *int) {
	switch {
	case ft == posT:
		*ctr += 3
		fv.SetInt(int64(*ctr))
	case ft.Implements(nodeIface):
		if depth > 0 {
			fv.Set(b.nodeValue(ft, depth, ctr))
		}
	case ft.Kind() == reflect.Slice && ft.Elem().Implements(nodeIface):
		if depth > 0 {
			s := reflect.MakeSlice(ft, 1, 1)
			s.Index(0).Set(b.nodeValue(ft.Elem(), depth, ctr))
			fv.Set(s)
		}
	case ft.Kind() == reflect.String:
		fv.SetString("ab")
	case ft.Kind() == reflect.Slice && ft.Elem().Kind() == reflect.Uint8:
		fv.SetBytes([]byte("ab"))
	case ft.Kind() == reflect.Int:
		fv.SetInt(10)
	}
}

var identRe = regexp.MustCompile(`[A-Za-z_][A-Za-z0-9_]*`)

// S7: every node struct x every valuation of the fields its pos/end
// documentation mentions (full product) x deviation-bounded valuations of the
// remaining fields.
func init() {
	shapesSpace = func(r *explore.Run, body func(c *explore.Ctx, n ast.Node, desc string)) {
		loadCatalog()
		if len(NodeZeroes) == 0 || catalogErr != nil {
			return
		}
		b := newShapeBuilder()
		var names []string
		for n := range b.types {
			names = append(names, n)
		}
		sort.Strings(names)
		// precompute implementations (not concurrency safe otherwise)
		for _, n := range names {
			t := b.types[n]
			for i := 0; i < t.NumField(); i++ {
				ft := t.Field(i).Type
				if ft.Kind() == reflect.Slice {
					ft = ft.Elem()
				}
				if ft.Kind() == reflect.Interface && ft.Implements(nodeIface) {
					b.implsOf(ft)
				}
			}
		}
		k := 2
		if r.Tier == "thorough" {
			k = 3
		}
		r.Explore(explore.Options{Space: "S7/node-shapes", MaxDev: k, SplitLen: 1,
			Bound: fmt.Sprintf("%d node structs x all valuations of the fields named in their pos/end documentation x <=%d deviations on the other fields (nil child, slice length 0/2, invalid position, other bool, other implementation)", len(names), k)},
			func(c *explore.Ctx) {
				name := names[c.ChooseFree(len(names))]
				t := b.types[name]
				mentioned := map[string]bool{}
				if sp, ok := posSpecs[name]; ok {
					for _, id := range identRe.FindAllString(sp.posSrc+" "+sp.endSrc, -1) {
						mentioned[id] = true
					}
				}
				ctr := 0
				p := reflect.New(t)
				v := p.Elem()
				var desc []string
				for i := 0; i < t.NumField(); i++ {
					f := t.Field(i)
					if !f.IsExported() {
						continue
					}
					ft := f.Type
					fv := v.Field(i)
					choose := c.Choose
					if mentioned[f.Name] {
						choose = c.ChooseFree
					}
					switch {
					case ft == posT:
						ctr += 3
						if choose(2) == 0 {
							fv.SetInt(int64(ctr))
						} else {
							fv.SetInt(-1)
							desc = append(desc, f.Name+"=invalid")
						}
					case ft.Implements(nodeIface):
						nalt := 2
						var im []reflect.Type
						if ft.Kind() == reflect.Interface {
							im = b.implsOf(ft)
							if len(im) > 1 {
								nalt = 3
							}
						}
						switch choose(nalt) {
						case 0:
							fv.Set(b.nodeValue(ft, 2, &ctr))
						case 1:
							desc = append(desc, f.Name+"=nil")
						case 2:
							// the richest implementation
							fv.Set(b.stub(im[len(im)-1], 1, &ctr))
							desc = append(desc, f.Name+"="+im[len(im)-1].Name())
						}
					case ft.Kind() == reflect.Slice && ft.Elem().Implements(nodeIface):
						n := []int{1, 0, 2}[choose(3)]
						s := reflect.MakeSlice(ft, n, n)
						for j := 0; j < n; j++ {
							s.Index(j).Set(b.nodeValue(ft.Elem(), 2, &ctr))
						}
						fv.Set(s)
						if n != 1 {
							desc = append(desc, fmt.Sprintf("len(%s)=%d", f.Name, n))
						}
					case ft.Kind() == reflect.Bool:
						if choose(2) == 1 {
							fv.SetBool(true)
							desc = append(desc, f.Name+"=true")
						}
					case ft.Kind() == reflect.String:
						if choose(2) == 0 {
							fv.SetString("ab")
						} else {
							fv.SetString("abcde")
							desc = append(desc, f.Name+"=len5")
						}
					default:
						b.setDefault(fv, ft, 1, &ctr)
					}
				}
				n := p.Interface().(ast.Node)
				d := name + "{" + strings.Join(desc, ",") + "}"
				c.Input(d)
				c.Sample(d)
				body(c, n, d)
			})
	}
	_ = oracle.TypeName
}
