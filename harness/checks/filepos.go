package checks

import (
	"fmt"
	"regexp"
	"strconv"
	"strings"

	"github.com/cloudspannerecosystem/memefish"
	"github.com/cloudspannerecosystem/memefish/token"

	"verif/explore"
	"verif/oracle"
	"verif/spaces"
)

var quotedLineRe = regexp.MustCompile(`^ *([0-9]+)\|  (.*)$`)

func lineText(s string, line int) string {
	parts := strings.Split(s, "\n")
	if line < len(parts) {
		return parts[line]
	}
	return "<no such line>"
}

// checkFilePos evaluates C20's File clauses for one text and one (pos,end).
func checkFilePos(text string, pos, end int) map[string]string {
	viol := map[string]string{}
	f := &token.File{FilePath: "f.sql", Buffer: text}
	wl, wc := oracle.LineCol(text, pos)
	var gl, gc int
	if pv, _ := explore.Try(func() { gl, gc = f.ResolvePos(token.Pos(pos)) }); pv != nil {
		viol["C20/ResolvePos/panic"] = fmt.Sprint(pv)
		return viol
	}
	if gl != wl || gc != wc {
		viol["C20/ResolvePos/value"] = fmt.Sprintf("ResolvePos(%d) on %q = (%d,%d), want (%d,%d)", pos, text, gl, gc, wl, wc)
	}
	var p *token.Position
	if pv, _ := explore.Try(func() { p = f.Position(token.Pos(pos), token.Pos(end)) }); pv != nil {
		viol["C20/Position/panic"] = fmt.Sprintf("Position(%d,%d) on %q panics: %v", pos, end, text, pv)
		return viol
	}
	el, ec := oracle.LineCol(text, end)
	if p.Line != wl || p.Column != wc || p.EndLine != el || p.EndColumn != ec || int(p.Pos) != pos || int(p.End) != end {
		viol["C20/Position/fields"] = fmt.Sprintf("Position(%d,%d) on %q = line %d col %d endline %d endcol %d, want %d %d %d %d", pos, end, text, p.Line, p.Column, p.EndLine, p.EndColumn, wl, wc, el, ec)
	}
	if want := fmt.Sprintf("f.sql:%d:%d", wl+1, wc+1); p.String() != want {
		viol["C20/Position/String"] = fmt.Sprintf("String() = %q want %q", p.String(), want)
	}
	// excerpt: quoted lines must be exactly lines wl..el with 1-based numbers
	type ql struct {
		n int
		t string
	}
	var got []ql
	for _, ln := range strings.Split(p.Source, "\n") {
		if m := quotedLineRe.FindStringSubmatch(ln); m != nil {
			n, _ := strconv.Atoi(m[1])
			got = append(got, ql{n, m[2]})
			continue
		}
		if strings.HasPrefix(ln, "   |  ") {
			continue // cursor line
		}
		viol["C20/excerpt/stray-line"] = fmt.Sprintf("Position(%d,%d) on %q: excerpt %q has a line %q that is neither a quoted source line nor a cursor line", pos, end, text, p.Source, ln)
	}
	var want []ql
	for l := wl; l <= el; l++ {
		want = append(want, ql{l + 1, lineText(text, l)})
	}
	if fmt.Sprint(got) != fmt.Sprint(want) {
		k := "single-line"
		if wl != el {
			k = "multi-line"
		}
		viol["C20/excerpt/lines/"+k] = fmt.Sprintf("Position(%d,%d) on %q: excerpt quotes %v, want %v (source %q)", pos, end, text, got, want, p.Source)
	}
	return viol
}

var fileSyms = []string{"a", "\n", "\r", "\xc3", "\xa9", "%", "\t"}

var errToks = []string{"select", "1", "a", "(", ")", ",", ";", "\n", " \n ", "'x", "from", "+", "\xc3\xa9", "/*c\n*/", "1a", "\r\n", "'%d'", "/* 50%\n"}

// C20: error positions resolve to the right line/column/excerpt.
func C20(r *explore.Run) {
	r.Rule = "every text over {a,LF,CR,0xC3,0xA9,%,TAB} up to the stated length, and every byte value at four places of a three-line text, x every 0<=pos<=end<=len through File.ResolvePos/Position against the reference resolver R6; " +
		"plus every error of every short token string (with newlines and multi-byte characters) through all list/single entry points, lexer and splitter; non-trivial = text with >=1 newline (file part) / input producing an error (error part)"
	k, n := 6, 3
	if r.Tier == "thorough" {
		k, n = 8, 4
	}
	r.Explore(explore.Options{Space: "texts x (pos,end)", MaxDev: -1,
		Bound: fmt.Sprintf("all texts of length<=%d over %d symbols (%d) x all pos<=end pairs", k, len(fileSyms), spaces.Count(len(fileSyms), k))}, func(c *explore.Ctx) {
		text := spaces.Str(c, fileSyms, k)
		c.Input(text)
		c.Sample(fmt.Sprintf("%q", text))
		for pos := 0; pos <= len(text); pos++ {
			for end := pos; end <= len(text); end++ {
				for sig, d := range checkFilePos(text, pos, end) {
					c.Violation(sig, fmt.Sprintf("%q pos=%d end=%d", text, pos, end), d)
				}
				c.Count("pos_end_pairs", 1)
			}
		}
		c.OutcomeStr(text)
		if strings.Contains(text, "\n") {
			c.Nontrivial(explore.Hash(text))
		}
	})
	r.Explore(explore.Options{Space: "every byte in a three-line text x (pos,end)", MaxDev: -1, SplitLen: 1,
		Bound: "each of the 256 byte values at the start, inside, at the line end and at the end of a three-line text x all pos<=end pairs"}, func(c *explore.Ctx) {
		b := string([]byte{byte(c.ChooseFree(256))})
		text := []string{b + "ab\ncd\nef", "a" + b + "b\nc" + b + "d\nef", "ab" + b + "\ncd" + b + "\nef", "ab\ncd\nef" + b}[c.ChooseFree(4)]
		c.Input(text)
		for pos := 0; pos <= len(text); pos++ {
			for end := pos; end <= len(text); end++ {
				for sig, d := range checkFilePos(text, pos, end) {
					c.Violation(sig, fmt.Sprintf("%q pos=%d end=%d", text, pos, end), d)
				}
				c.Count("pos_end_pairs", 1)
			}
		}
		c.OutcomeStr(text)
		c.Nontrivial(explore.Hash(text))
	})
	// many lines: the width of the line number in the excerpt changes at 10, 100, 1000, 10000
	r.Explore(explore.Options{Space: "texts with many lines", MaxDev: -1, SplitLen: 1,
		Bound: "n newlines + 'ab' + LF + 'c' for every n in 0..1100 and n in {9998..10001}, positions in the last three lines"}, func(c *explore.Ctx) {
		n := c.ChooseFree(1105)
		if n > 1100 {
			n = 9998 + (n - 1101)
		}
		text := strings.Repeat("\n", n) + "ab\nc"
		c.Input(fmt.Sprintf("%d newlines + ab LF c", n))
		lo := len(text) - 6
		if lo < 0 {
			lo = 0
		}
		for pos := lo; pos <= len(text); pos++ {
			for end := pos; end <= len(text); end++ {
				for sig, d := range checkFilePos(text, pos, end) {
					c.Violation(sig, fmt.Sprintf("%d newlines + \"ab\\nc\" pos=%d end=%d", n, pos, end), d)
				}
				c.Count("pos_end_pairs", 1)
			}
		}
		// and the error of a real parse on the last line
		for _, e := range collectErrors(strings.Repeat("\n", n) + "SELECT") {
			for sig, d := range checkErrorPos(strings.Repeat("\n", n)+"SELECT", e) {
				c.Violation(sig, fmt.Sprintf("%d newlines + SELECT", n), d)
			}
		}
		c.OutcomeStr(fmt.Sprint(n))
		c.Nontrivial(explore.Hash(fmt.Sprint(n)))
	})
	r.Explore(explore.Options{Space: "errors of token strings", MaxDev: -1,
		Bound: fmt.Sprintf("all sequences of <=%d of %d tokens joined by a blank, through ParseStatements/ParseExpr/ParseDDL/SplitRawStatements/Lexer", n, len(errToks))}, func(c *explore.Ctx) {
		seq := spaces.Seq(c, len(errToks), n)
		var parts []string
		for _, i := range seq {
			parts = append(parts, errToks[i])
		}
		s := strings.Join(parts, " ")
		c.Input(s)
		c.Sample(fmt.Sprintf("%q", s))
		nerr := 0
		for _, e := range collectErrors(s) {
			nerr++
			for sig, d := range checkErrorPos(s, e) {
				c.Violation(sig, s, d)
			}
		}
		c.Count("errors_checked", int64(nerr))
		c.OutcomeStr(fmt.Sprint(nerr))
		if nerr > 0 {
			c.Nontrivial(explore.Hash(s))
		}
	})
}

// collectErrors gathers every *Error the public API reports for s.
func collectErrors(s string) []*memefish.Error {
	var out []*memefish.Error
	add := func(err error) {
		switch e := err.(type) {
		case memefish.MultiError:
			out = append(out, e...)
		case *memefish.Error:
			out = append(out, e)
		}
	}
	explore.Try(func() { _, err := memefish.ParseStatements("f.sql", s); add(err) })
	explore.Try(func() { _, err := memefish.ParseExpr("f.sql", s); add(err) })
	explore.Try(func() { _, err := memefish.ParseDDL("f.sql", s); add(err) })
	explore.Try(func() { _, err := memefish.SplitRawStatements("f.sql", s); add(err) })
	explore.Try(func() {
		l := &memefish.Lexer{File: &token.File{FilePath: "f.sql", Buffer: s}}
		for i := 0; i < len(s)+2; i++ {
			if err := l.NextToken(); err != nil {
				add(err)
				return
			}
			if l.Token.Kind == token.TokenEOF {
				return
			}
		}
	})
	return out
}

// checkErrorPos: message prefix and Position fields agree with R6 for the error's Pos/End.
func checkErrorPos(s string, e *memefish.Error) map[string]string {
	viol := map[string]string{}
	if e == nil || e.Position == nil {
		viol["C20/error/nil-position"] = "error without Position"
		return viol
	}
	p := e.Position
	if p.Pos < 0 || int(p.Pos) > len(s) {
		return viol // range clause belongs to C09
	}
	wl, wc := oracle.LineCol(s, int(p.Pos))
	want := fmt.Sprintf("syntax error: f.sql:%d:%d: ", wl+1, wc+1)
	if !strings.HasPrefix(e.Error(), want) {
		viol["C20/error/prefix"] = fmt.Sprintf("Error() = %q, want prefix %q (Pos=%d)", e.Error(), want, p.Pos)
	}
	if p.Line != wl || p.Column != wc {
		viol["C20/error/line-col"] = fmt.Sprintf("Position line/col = %d/%d, want %d/%d (Pos=%d)", p.Line, p.Column, wl, wc, p.Pos)
	}
	if p.End >= p.Pos && int(p.End) <= len(s) {
		el, ec := oracle.LineCol(s, int(p.End))
		if p.EndLine != el || p.EndColumn != ec {
			viol["C20/error/end-line-col"] = fmt.Sprintf("Position endline/endcol = %d/%d, want %d/%d (End=%d)", p.EndLine, p.EndColumn, el, ec, p.End)
		}
	}
	return viol
}

func init() {
	Registry["C20"] = C20
}
