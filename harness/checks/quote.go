package checks

import (
	"fmt"
	"unicode/utf8"

	"github.com/cloudspannerecosystem/memefish/ast"
	"github.com/cloudspannerecosystem/memefish/token"

	"verif/explore"
	"verif/lexref"
	"verif/spaces"
)

func byteClass(s string) string {
	for i := 0; i < len(s); {
		r, n := utf8.DecodeRuneInString(s[i:])
		if r == utf8.RuneError && n <= 1 {
			return "invalid-utf8"
		}
		i += n
	}
	for _, c := range []byte(s) {
		if c < 0x20 || c == 0x7f {
			return "control"
		}
	}
	for _, c := range []byte(s) {
		switch c {
		case '\'', '"', '`', '\\':
			return "quote-or-backslash"
		}
	}
	for _, c := range []byte(s) {
		if c >= 0x80 {
			return "non-ascii"
		}
	}
	return "plain"
}

func identShaped(s string) bool {
	if s == "" {
		return false
	}
	for i := 0; i < len(s); i++ {
		c := s[i]
		ok := c == '_' || c >= 'a' && c <= 'z' || c >= 'A' && c <= 'Z' || i > 0 && c >= '0' && c <= '9'
		if !ok {
			return false
		}
	}
	return true
}

// checkQuote evaluates C15 on one value s; returns signature->detail.
func checkQuote(s string) map[string]string {
	viol := map[string]string{}
	one := func(fn, out, wantKind string) (string, bool) {
		toks, _, err, pv := fullLex(out)
		if pv != nil || err != nil {
			viol["C15/"+fn+"/does-not-lex/"+byteClass(s)] = fmt.Sprintf("%s(%q) = %q does not lex: %v %v", fn, s, out, err, pv)
			return "", false
		}
		if len(toks) != 2 || string(toks[0].Kind) != wantKind {
			viol["C15/"+fn+"/not-one-token/"+byteClass(s)] = fmt.Sprintf("%s(%q) = %q lexes to %d tokens, first %s", fn, s, out, len(toks)-1, toks[0].Kind)
			return "", false
		}
		return toks[0].AsString, true
	}
	var out string
	if pv, _ := explore.Try(func() { out = token.QuoteSQLString(s) }); pv != nil {
		viol["C15/QuoteSQLString/panic"] = fmt.Sprint(pv)
	} else if v, ok := one("QuoteSQLString", out, "<string>"); ok && v != s {
		viol["C15/QuoteSQLString/value/"+byteClass(s)] = fmt.Sprintf("QuoteSQLString(%q) = %q decodes to %q", s, out, v)
	}
	if pv, _ := explore.Try(func() { out = token.QuoteSQLBytes([]byte(s)) }); pv != nil {
		viol["C15/QuoteSQLBytes/panic"] = fmt.Sprint(pv)
	} else if v, ok := one("QuoteSQLBytes", out, "<bytes>"); ok && v != s {
		viol["C15/QuoteSQLBytes/value/"+byteClass(s)] = fmt.Sprintf("QuoteSQLBytes(%q) = %q decodes to %q", s, out, v)
	}
	if s != "" {
		if pv, _ := explore.Try(func() { out = token.QuoteSQLIdent(s) }); pv != nil {
			viol["C15/QuoteSQLIdent/panic"] = fmt.Sprint(pv)
		} else {
			if v, ok := one("QuoteSQLIdent", out, "<ident>"); ok && v != s {
				viol["C15/QuoteSQLIdent/value/"+byteClass(s)] = fmt.Sprintf("QuoteSQLIdent(%q) = %q names %q", s, out, v)
			}
			if out == s && (!identShaped(s) || lexref.IsReserved(s)) {
				viol["C15/QuoteSQLIdent/unquoted"] = fmt.Sprintf("QuoteSQLIdent(%q) returned unquoted", s)
			}
		}
	}
	return viol
}

var critBytes = []string{"'", "\"", "`", "\\", "\n", "\r", "\t", "\x00", "a", "\x7f", "\x80", "\xc3", "\xa9", "\xff"}

// C15: quoting functions are right inverses of lexing.
func C15(r *explore.Run) {
	r.Rule = "QuoteSQLString/Bytes/Ident applied to every 1- and 2-byte string, every Unicode scalar value, every string of critical bytes up to the stated length, every reserved keyword in 3 cases and every identifier-shaped string <=3 over {a,Z,_,0}; output re-lexed with the public lexer; " +
		"non-trivial = value containing a quote, backslash, control, non-ASCII or invalid-UTF-8 byte; distinct by value"
	r.Assume = []string{"the public lexer is the decoder (decided by C13/C14)"}
	body := func(c *explore.Ctx, s string) {
		c.Input(s)
		c.Sample(fmt.Sprintf("%q", s))
		for sig, d := range checkQuote(s) {
			c.Violation(sig, s, d)
		}
		cl := byteClass(s)
		c.OutcomeStr(cl + fmt.Sprint(len(s)))
		if cl != "plain" {
			c.Nontrivial(explore.Hash(s))
		}
	}
	r.Explore(explore.Options{Space: "bytes<=2", MaxDev: -1, Bound: "every string of 0,1,2 arbitrary bytes (65793)"}, func(c *explore.Ctx) {
		var b []byte
		for i := 0; i < 2; i++ {
			k := c.ChooseFree(257)
			if k == 0 {
				break
			}
			b = append(b, byte(k-1))
		}
		body(c, string(b))
	})
	r.Explore(explore.Options{Space: "unicode-scalars", MaxDev: -1, SplitLen: 1, Bound: "every Unicode scalar value U+0000..U+10FFFF except surrogates, as UTF-8 (1112064)"}, func(c *explore.Ctx) {
		hi := c.ChooseFree(0x110000 >> 8)
		lo := c.ChooseFree(256)
		cp := rune(hi<<8 | lo)
		if cp >= 0xD800 && cp <= 0xDFFF {
			return
		}
		body(c, string(cp))
	})
	k := 3
	if r.Tier == "thorough" {
		k = 5
	}
	r.Explore(explore.Options{Space: "critical-bytes", MaxDev: -1, Bound: fmt.Sprintf("every string of length<=%d over 14 critical bytes (%d)", k, spaces.Count(14, k))}, func(c *explore.Ctx) {
		body(c, spaces.Str(c, critBytes, k))
	})
	r.Explore(explore.Options{Space: "keywords-and-idents", MaxDev: -1, SplitLen: 1, Bound: "every reserved keyword in UPPER/lower/Mixed case; every identifier-shaped string of length<=3 over {a,Z,_,0}"}, func(c *explore.Ctx) {
		if c.ChooseFree(2) == 0 {
			kw := lexref.Reserved[c.ChooseFree(len(lexref.Reserved))]
			switch c.ChooseFree(3) {
			case 1:
				kw = lower(kw)
			case 2:
				kw = kw[:1] + lower(kw[1:])
			}
			body(c, kw)
			return
		}
		s := spaces.Str(c, []string{"a", "Z", "_", "0"}, 3)
		body(c, s)
	})
}

// parsedIdents: the quoting functions are reached through Ident.SQL(); every identifier node of a parsed
// path - in particular a reserved word accepted unquoted as a field name after "." - must print, on its
// own, as one identifier token naming it.
func parsedIdents(r *explore.Run) {
	forms := []struct{ pre, post string }{{"t.", ""}, {"t.", ".x"}, {"t.x.", ""}, {"t.`", "`"}, {"`", "`"}, {"`", "`.x"}, {"f(t.", ")"}, {"t.", "[0]"}, {"(t).", ""}, {"@p.", ""}}
	r.Explore(explore.Options{Space: "identifier nodes of parsed paths", MaxDev: -1, SplitLen: 1,
		Bound: fmt.Sprintf("each of %d reserved words in 3 letter cases x %d path forms through ParseExpr; SQL() of every Ident node", len(lexref.Reserved), len(forms))}, func(c *explore.Ctx) {
		kw := lexref.Reserved[c.ChooseFree(len(lexref.Reserved))]
		switch c.ChooseFree(3) {
		case 1:
			kw = lower(kw)
		case 2:
			kw = kw[:1] + lower(kw[1:])
		}
		f := forms[c.ChooseFree(len(forms))]
		s := f.pre + kw + f.post
		c.Input(s)
		res := EntryByName("ParseExpr").Call(s)
		if res.Panic != nil || res.Err != nil {
			c.OutcomeStr("rejected")
			return
		}
		n := 0
		for _, v := range allNodes(res.Roots) {
			id, ok := v.Node.(*ast.Ident)
			if !ok || id == nil {
				continue
			}
			n++
			q, ok := safeSQL(id)
			if !ok {
				continue
			}
			toks, _, err, pv := fullLex(q)
			if pv != nil || err != nil || len(toks) != 2 || string(toks[0].Kind) != "<ident>" || toks[0].AsString != id.Name {
				c.Violation("C15/Ident.SQL/not-that-identifier", s, fmt.Sprintf("ParseExpr(%q): the Ident %q at %s prints as %q, which does not lex back to that one identifier", s, id.Name, v.Path, q))
			}
		}
		c.OutcomeStr(fmt.Sprint("idents", n))
		c.Nontrivial(explore.Hash(s))
	})
}

func lower(s string) string {
	b := []byte(s)
	for i, c := range b {
		if c >= 'A' && c <= 'Z' {
			b[i] = c + 32
		}
	}
	return string(b)
}

func init() {
	Registry["C15"] = func(r *explore.Run) { C15(r); parsedIdents(r) }
	Single["C15"] = checkQuote
}
