package checks

import (
	"fmt"
	"strings"

	"github.com/cloudspannerecosystem/memefish"
	"github.com/cloudspannerecosystem/memefish/token"

	"verif/explore"
	"verif/oracle"
)

// checkParseTotal is C03's oracle for one parser call.
func checkParseTotal(e *Entry, s string) (viol map[string]string, res ParseResult) {
	viol = map[string]string{}
	res = e.Call(s)
	if res.Panic != nil {
		viol["C03/panic/"+panicSig(res.Panic, res.Stack)] = fmt.Sprintf("%s(%q) panics: %v", e.Name, s, res.Panic)
		return
	}
	if res.Err != nil {
		me, ok := res.Err.(memefish.MultiError)
		switch {
		case !ok:
			viol["C03/error-type/"+e.Name] = fmt.Sprintf("%s(%q) error has type %T", e.Name, s, res.Err)
		case len(me) == 0:
			viol["C03/empty-multierror/"+e.Name] = fmt.Sprintf("%s(%q) returns an empty MultiError", e.Name, s)
		default:
			for _, x := range me {
				if x == nil {
					viol["C03/nil-error-element/"+e.Name] = fmt.Sprintf("%s(%q) MultiError contains nil", e.Name, s)
				}
			}
		}
	}
	if e.Single {
		if len(res.Roots) != 1 || oracle.IsNilNode(res.Roots[0]) {
			viol["C03/nil-node/"+e.Name] = fmt.Sprintf("%s(%q) returns a nil node (err=%v)", e.Name, s, res.Err)
		}
	} else {
		for _, n := range res.Roots {
			if oracle.IsNilNode(n) {
				viol["C03/nil-node/"+e.Name] = fmt.Sprintf("%s(%q) returns a list containing nil", e.Name, s)
			}
		}
	}
	return
}

// checkLexTotal is C03's oracle for Lexer.NextToken and SplitRawStatements.
func checkLexTotal(s string) map[string]string {
	viol := map[string]string{}
	l := &memefish.Lexer{File: &token.File{FilePath: "f.sql", Buffer: s}}
	pv, st := explore.Try(func() {
		for i := 0; ; i++ {
			err := l.NextToken()
			if err != nil {
				if e, ok := err.(*memefish.Error); !ok || e == nil {
					viol["C03/lexer-error-type"] = fmt.Sprintf("NextToken error has type %T", err)
				}
				return
			}
			if l.Token.Kind == token.TokenEOF {
				return
			}
			if i > len(s)+2 {
				viol["C03/lexer-no-progress"] = "more tokens than bytes: the lexer does not advance"
				return
			}
		}
	})
	if pv != nil {
		viol["C03/panic/"+panicSig(pv, st)] = fmt.Sprintf("Lexer.NextToken on %q panics: %v", s, pv)
	}
	pv, st = explore.Try(func() {
		ps, err := memefish.SplitRawStatements("f.sql", s)
		if err != nil {
			if e, ok := err.(*memefish.Error); !ok || e == nil {
				viol["C03/splitter-error-type"] = fmt.Sprintf("SplitRawStatements error has type %T", err)
			}
		} else if len(ps) == 0 {
			viol["C03/splitter-empty"] = "SplitRawStatements returned no piece and no error"
		}
	})
	if pv != nil {
		viol["C03/panic/"+panicSig(pv, st)] = fmt.Sprintf("SplitRawStatements(%q) panics: %v", s, pv)
	}
	return viol
}

// C03: totality of all entry points.
func C03(r *explore.Run) {
	r.Rule = "S1 byte strings and S2 lexeme sequences through Lexer.NextToken (to EOF) and SplitRawStatements and through all nine Parse* functions (S1 at reduced length); S3 token strings (with lexically malformed tokens at every position) through all nine Parse* functions; " +
		"oracle: returns (watchdog), no panic, error types as documented, non-nil node; non-trivial = input for which at least one entry point reports an error; distinct by (entry point, outcome class, tree shape)"
	r.Assume = []string{"a case that does not return within 20 s (inputs are <=60 bytes) is reported as non-termination"}
	hang := explore.Options{HangSig: "C03/non-termination", HangRecheck: func(in string) {
		// the input may carry an "Entry: " prefix from the edit spaces
		if i := strings.Index(in, ": "); i > 0 && strings.HasPrefix(in, "Parse") {
			in = in[i+2:]
		}
		checkLexTotal(in)
		for i := range Entries {
			Entries[i].Call(in)
		}
	}}
	explore.HangHook = func(sig, input, why string) {
		r.AddViolation(sig, input, why)
		r.Finish()
	}
	byteSpaces(r, hang, func(c *explore.Ctx, s string) {
		c.Input(s)
		c.Sample(fmt.Sprintf("%q", s))
		v := checkLexTotal(s)
		for sig, d := range v {
			c.Violation(sig, s, d)
		}
		c.OutcomeStr(fmt.Sprint(len(v)))
		// short byte strings also go through the parser entry points
		if len(s) <= 4 {
			for i := range Entries {
				pv, res := checkParseTotal(&Entries[i], s)
				for sig, d := range pv {
					c.Violation(sig, s, d)
				}
				if res.Err != nil {
					c.Nontrivial(explore.Hash(s))
				}
			}
		}
	})
	tokenSpaces(r, hang, true, func(c *explore.Ctx, e *Entry, s string) {
		v, res := checkParseTotal(e, s)
		for sig, d := range v {
			c.Violation(sig, s, d)
		}
		cls := "ok"
		if res.Panic != nil {
			cls = "panic"
		} else if res.Err != nil {
			cls = "error"
			c.Nontrivial(explore.Hash(s))
		}
		var sh strings.Builder
		sh.WriteString(e.Name)
		sh.WriteString(cls)
		if res.Panic == nil {
			sh.WriteString(shapeOf(res.Roots))
		}
		c.OutcomeStr(sh.String())
	})
	edits := func(c *explore.Ctx, e *Entry, s string) {
		v, res := checkParseTotal(e, s)
		for sig, d := range v {
			c.Violation(sig, e.Name+": "+s, d)
		}
		if res.Err != nil {
			c.Nontrivial(explore.Hash(s))
		}
		if res.Panic == nil {
			c.OutcomeStr(e.Name + shapeOf(res.Roots))
		}
	}
	editSpace(r, 1, edits)
	corpusEditSpace(r, edits)
	pumpSpace(r, edits)
	keywordReplaceSpace(r, 1, edits)
	identReplaceSpace(r, 1, edits)
}

func init() {
	Registry["C03"] = C03
}
