package checks

import (
	"fmt"
	"sync"
	"strings"

	"github.com/cloudspannerecosystem/memefish/ast"

	"verif/explore"
	"verif/grammar"
	"verif/lexref"
	"verif/oracle"
)

// safeSQL calls SQL() under recover.
func safeSQL(n ast.Node) (s string, ok bool) {
	pv, _ := explore.Try(func() { s = n.SQL() })
	return s, pv == nil
}

// checkRoundTrip is C01's oracle for one accepted parse (res.Err == nil).
func checkRoundTrip(e *Entry, s string, res ParseResult) map[string]string {
	viol := map[string]string{}
	if res.Err != nil || res.Panic != nil {
		return viol
	}
	if !e.Single {
		// list entry points: the statements' SQL() joined by ";" must give the same list again
		var parts []string
		for _, root := range res.Roots {
			s1, ok := safeSQL(root)
			if !ok {
				return viol // C04
			}
			parts = append(parts, s1)
		}
		if len(parts) == 0 {
			return viol
		}
		joined := strings.Join(parts, ";\n")
		res2 := e.Call(joined)
		switch {
		case res2.Panic != nil:
		case res2.Err != nil:
			viol["C01/list/reparse-error/"+errClass(res2.Err)+"/"+errContext(joined, res2.Err)] = fmt.Sprintf("%s accepts %q; the statements' SQL() joined by ';' = %q is rejected: %v", e.Name, s, joined, res2.Err)
		case len(res2.Roots) != len(res.Roots):
			viol["C01/list/count"] = fmt.Sprintf("%s(%q) has %d statements, re-parsing their SQL() gives %d", e.Name, s, len(res.Roots), len(res2.Roots))
		default:
			for i := range res.Roots {
				if d := oracle.EqualUpToPos(res.Roots[i], res2.Roots[i]); d != "" {
					viol["C01/ast-diff/"+oracle.SigOf(d)] = fmt.Sprintf("%s(%q): statement %d differs after the round trip: %s", e.Name, s, i, d)
					break
				}
			}
		}
		return viol
	}
	t := res.Roots[0]
	if oracle.IsNilNode(t) {
		return viol
	}
	// every identifier node prints, on its own, as one identifier token naming it
	for _, v := range oracle.Preorder(t) {
		id, isIdent := v.Node.(*ast.Ident)
		if !isIdent || id == nil {
			continue
		}
		q, ok := safeSQL(id)
		if !ok {
			continue
		}
		if toks, err := oracle.ImplLex(q); err != nil || len(toks) != 1 || toks[0].Kind != "<ident>" || toks[0].AsString != id.Name {
			viol["C01/ident-sql-not-that-identifier"] = fmt.Sprintf("%s(%q): the Ident %q at %s prints as %q, which does not lex as that one identifier", e.Name, s, id.Name, v.Path, q)
			break
		}
	}
	s1, ok := safeSQL(t)
	if !ok {
		return viol // C04
	}
	res2 := e.Call(s1)
	if res2.Panic != nil {
		viol["C01/reparse-panic/"+panicClass(res2.Panic)] = fmt.Sprintf("%s(%q) = tree with SQL() %q, re-parsing it panics: %v", e.Name, s, s1, res2.Panic)
		return viol
	}
	if res2.Err != nil {
		viol["C01/reparse-error/"+errClass(res2.Err)+"/"+errContext(s1, res2.Err)] = fmt.Sprintf("%s accepts %q; its SQL() %q is rejected: %v", e.Name, s, s1, res2.Err)
		return viol
	}
	t2 := res2.Roots[0]
	if d := oracle.EqualUpToPos(t, t2); d != "" {
		viol["C01/ast-diff/"+oracle.SigOf(d)] = fmt.Sprintf("%s(%q) and %s(SQL() = %q) differ: %s", e.Name, s, e.Name, s1, d)
		return viol
	}
	s2, ok := safeSQL(t2)
	if ok && s2 != s1 {
		viol["C01/not-fixpoint/"+oracle.TypeName(t)] = fmt.Sprintf("SQL() of the re-parsed tree is %q, first SQL() was %q", s2, s1)
	}
	return viol
}

// C01: parse -> unparse -> parse is stable.
func C01(r *explore.Run) {
	r.Rule = "every accepted input among: sentences of G within the deviation bound (specific entry point and ParseStatement), S3 token strings (4 entry points per alphabet), corpus files and keyword-replacement neighbours of sentences of G; oracle: SQL() re-parses without error to a tree equal up to position values (R4) and SQL() is a fixed point; " +
		"non-trivial = accepted input whose tree has >=2 nodes; distinct by (entry point, tree shape)"
	r.Assume = []string{"R4 compares every exported field, token.Pos only by validity"}
	body := func(c *explore.Ctx, e *Entry, s string) {
		res := e.Call(s)
		if res.Panic != nil || res.Err != nil {
			c.Count("not_accepted", 1)
			return
		}
		c.Count("accepted", 1)
		for sig, d := range checkRoundTrip(e, s, res) {
			c.Violation(sig, e.Name+": "+s, d)
		}
		outcomeTree(c, e, s, res)
	}
	tokenSpaces(r, explore.Options{}, false, body)
	corpusSpace(r, body)
	grammarTreeSpace(r, 3, body)
	// accepted inputs next to G: keyword replacements
	keywordReplaceSpace(r, 2, body)
	identReplaceSpace(r, 1, body)
	reservedAsIdentSpace(r, body)
	lightEditsAdaptive(r, 2, 3000, body)
	// lists of sentences through the list entry points
	grammarSpace(r, "S4/grammar-lists", 1, func(c *explore.Ctx, s *grammar.Sentence) {
		if !isStatementKind(s.Kind) {
			return
		}
		text := s.Text()
		def := map[string]string{"query": "SELECT 1", "ddl": "DROP TABLE t", "dml": "DELETE FROM t WHERE TRUE", "call": "CALL p()"}[s.Kind]
		le := map[string]string{"ddl": "ParseDDLs", "dml": "ParseDMLs"}[s.Kind]
		for _, x := range []string{text + " ; " + def, def + " ; " + text + " ;"} {
			c.Input(x)
			body(c, EntryByName("ParseStatements"), x)
			if le != "" {
				body(c, EntryByName(le), x)
			}
		}
	})
}

// ---------------------------------------------------------------------------
// C02

type ctok struct {
	cls grammar.Class
	val string
	src int // index of the source token (expected side only)
}

func (t ctok) String() string {
	switch t.cls {
	case grammar.KW, grammar.PKW, grammar.PUNCT:
		return t.val
	case grammar.ID:
		return "<ident>"
	case grammar.STR:
		return "<string>"
	case grammar.BYTES:
		return "<bytes>"
	case grammar.NUM:
		return "<number>"
	case grammar.PARAM:
		return "<param>"
	}
	return "?"
}

func (t ctok) full() string {
	switch t.cls {
	case grammar.ID, grammar.STR, grammar.BYTES, grammar.NUM, grammar.PARAM:
		return fmt.Sprintf("%s(%q)", t.String(), t.val)
	}
	return t.val
}

// normalise splits ">>" and "<>" (type brackets) so that bracket spelling does not matter.
func normalise(in []ctok) []ctok {
	var out []ctok
	for _, t := range in {
		if t.cls == grammar.PUNCT && t.val == ">>" {
			out = append(out, ctok{grammar.PUNCT, ">", t.src}, ctok{grammar.PUNCT, ">", t.src})
			continue
		}
		if t.cls == grammar.PUNCT && t.val == "<>" {
			out = append(out, ctok{grammar.PUNCT, "<", t.src}, ctok{grammar.PUNCT, ">", t.src})
			continue
		}
		out = append(out, t)
	}
	return out
}

// lexCanon lexes text with the public lexer into comparable tokens.
func lexCanon(text string) ([]ctok, error) {
	toks, err := oracle.ImplLex(text)
	if err != nil {
		return nil, err
	}
	var out []ctok
	for _, t := range toks {
		switch t.Kind {
		case "<ident>":
			out = append(out, ctok{grammar.ID, t.AsString, -1})
		case "<string>":
			out = append(out, ctok{grammar.STR, t.AsString, -1})
		case "<bytes>":
			out = append(out, ctok{grammar.BYTES, t.AsString, -1})
		case "<int>", "<float>":
			out = append(out, ctok{grammar.NUM, t.Raw, -1})
		case "<param>":
			out = append(out, ctok{grammar.PARAM, t.AsString, -1})
		default:
			k := string(t.Kind)
			if k[0] >= 'A' && k[0] <= 'Z' {
				out = append(out, ctok{grammar.KW, k, -1})
			} else {
				out = append(out, ctok{grammar.PUNCT, k, -1})
			}
		}
	}
	return normalise(out), nil
}

func sameTok(want, got ctok) bool {
	switch want.cls {
	case grammar.PKW:
		return got.cls == grammar.ID && strings.EqualFold(got.val, want.val)
	case grammar.KW:
		return got.cls == grammar.KW && got.val == want.val
	}
	return got.cls == want.cls && got.val == want.val
}

// checkLossless is C02's oracle for one sentence of G.
func checkLossless(e *Entry, sent *grammar.Sentence, res ParseResult) map[string]string {
	viol := map[string]string{}
	if res.Err != nil || res.Panic != nil || len(res.Roots) != 1 {
		return viol
	}
	sql, ok := safeSQL(res.Roots[0])
	if !ok {
		return viol
	}
	got, err := lexCanon(sql)
	if err != nil {
		viol["C02/sql-does-not-lex"] = fmt.Sprintf("SQL() = %q does not lex: %v", sql, err)
		return viol
	}
	var want []ctok
	for i, t := range sent.Canon {
		want = append(want, ctok{t.Class, t.Val, sent.CanonSrc[i]})
	}
	offs := sent.Offsets()
	nodes := allNodes(res.Roots)
	// innermost node containing the source position of expected token i
	nodeAt := func(i int) string {
		if i >= len(want) {
			i = len(want) - 1
		}
		if i < 0 || want[i].src < 0 {
			return "?"
		}
		off := offs[want[i].src]
		best, bestLen := "?", 1<<30
		for _, v := range nodes {
			p, e, ok := safePosEnd(v.Node)
			if ok && p <= off && off < e && e-p <= bestLen {
				best, bestLen = oracle.TypeName(v.Node), e-p
			}
		}
		return best
	}
	want = normalise(want)
	for i := 0; i < len(want) || i < len(got); i++ {
		if i < len(want) && i < len(got) && sameTok(want[i], got[i]) {
			continue
		}
		prev := "in=" + nodeAt(i)
		var sig, d string
		switch {
		case i >= len(got):
			sig = "C02/dropped/" + want[i].String() + "/" + prev
			d = fmt.Sprintf("token %s is missing at the end", want[i].full())
		case i >= len(want):
			sig = "C02/added/" + got[i].String() + "/" + prev
			d = fmt.Sprintf("extra token %s at the end", got[i].full())
		case i+1 < len(want) && sameTok(want[i+1], got[i]):
			sig = "C02/dropped/" + want[i].String() + "/" + prev
			d = fmt.Sprintf("token %d %s disappeared", i, want[i].full())
		case i+1 < len(got) && sameTok(want[i], got[i+1]):
			sig = "C02/added/" + got[i].String() + "/" + prev
			d = fmt.Sprintf("token %d %s appeared", i, got[i].full())
		default:
			sig = "C02/changed/" + want[i].String() + "->" + got[i].String() + "/" + prev
			d = fmt.Sprintf("token %d: expected %s, unparse has %s", i, want[i].full(), got[i].full())
		}
		viol[sig] = fmt.Sprintf("%s(%q).SQL() = %q: %s", e.Name, sent.Text(), sql, d)
		break
	}
	return viol
}

// C02: unparse is lossless.
func C02(r *explore.Run) {
	r.Rule = "every sentence of reference grammar G within the deviation bound, through its specific entry point (ParseStatement for CALL): SQL() is lexed with the public lexer and compared with the canonical significant-token sequence that G itself emits for the sentence (never derived from the parser or SQL()); " +
		"non-trivial = accepted sentence with >=1 deviation; distinct by token text"
	r.Assume = []string{"canonicalisations applied by G are exactly those listed in the property (noise words, '<>' -> '!=', trailing/optional commas, CREATE TABLE element grouping)", "type brackets '>>' and '<>' are split on both sides before comparing"}
	grammarSpace(r, "S4/grammar", 3, func(c *explore.Ctx, s *grammar.Sentence) {
		text := s.Text()
		c.Input(text)
		c.Sample(s.Root + ": " + text)
		en := specificEntry(s.Kind)
		if en == "" {
			en = "ParseStatement"
		}
		e := EntryByName(en)
		res := e.Call(text)
		if res.Err != nil || res.Panic != nil {
			c.Count("not_accepted(C08)", 1)
			return
		}
		for sig, d := range checkLossless(e, s, res) {
			c.Violation(sig, text, d)
		}
		c.OutcomeStr(text)
		if c.Cost() > 0 {
			c.Nontrivial(explore.Hash(text))
		}
	})
	// accepted inputs outside G: token strings and corpus files against the generic token-preservation oracle
	kept := func(c *explore.Ctx, e *Entry, s string) {
		res := e.Call(s)
		if res.Err != nil || res.Panic != nil || !e.Single && len(res.Roots) == 0 {
			return
		}
		c.Count("accepted_inputs", 1)
		for sig, d := range checkTokensKept(e, s, res) {
			c.Violation(sig, e.Name+": "+s, d)
		}
		c.OutcomeStr(e.Name + s)
		c.Nontrivial(explore.Hash(s))
	}
	tokenSpaces(r, explore.Options{}, false, kept)
	corpusSpace(r, kept)
	// near-valid inputs: every keyword of every sentence replaced by each keyword that stands in an alternative
	// somewhere in the grammar (a parser that accepts such a mixture must still print what was written)
	keywordReplaceSpace(r, 2, kept)
	identReplaceSpace(r, 1, kept)
	reservedAsIdentSpace(r, kept)
	lightEditsAdaptive(r, 2, 3000, kept)
}

// reservedAsIdentSpace: every reserved word, back-quoted, in every identifier role of a few small inputs.
func reservedAsIdentSpace(r *explore.Run, body func(c *explore.Ctx, e *Entry, s string)) {
	forms := []struct{ entry, pre, post string }{
		{"ParseExpr", "", ""}, {"ParseExpr", "a.", ""}, {"ParseExpr", "", ".b"}, {"ParseExpr", "", "(1)"}, {"ParseExpr", "f(", " => 1)"},
		{"ParseQuery", "SELECT 1 AS ", ""}, {"ParseQuery", "SELECT * FROM ", ""}, {"ParseQuery", "SELECT * FROM t AS ", ""}, {"ParseQuery", "SELECT * FROM t ", ""},
		{"ParseQuery", "WITH ", " AS (SELECT 1) SELECT 1"}, {"ParseQuery", "SELECT * FROM t@{FORCE_INDEX=", "}"},
		{"ParseType", "STRUCT<", " INT64>"}, {"ParseType", "", ""}, {"ParseDDL", "CREATE TABLE ", " (a INT64) PRIMARY KEY (a)"},
		{"ParseDDL", "CREATE TABLE t (", " INT64) PRIMARY KEY ()"}, {"ParseDDL", "CREATE INDEX ", " ON t (a)"}, {"ParseDDL", "ALTER TABLE t ADD COLUMN ", " INT64"},
		{"ParseDDL", "DROP TABLE ", ""}, {"ParseDDL", "CREATE ROLE ", ""}, {"ParseDML", "INSERT INTO ", " (a) VALUES (1)"}, {"ParseDML", "INSERT INTO t (", ") VALUES (1)"},
		{"ParseDML", "UPDATE t SET ", " = 1 WHERE TRUE"}, {"ParseDML", "DELETE FROM ", " WHERE TRUE"}, {"ParseStatement", "CALL ", "()"},
	}
	r.Explore(explore.Options{Space: "S2k/reserved-words-as-identifiers", MaxDev: -1, SplitLen: 1,
		Bound: fmt.Sprintf("each of %d reserved words, back-quoted in upper and lower case, in %d identifier roles", len(lexref.Reserved), len(forms))}, func(c *explore.Ctx) {
		w := lexref.Reserved[c.ChooseFree(len(lexref.Reserved))]
		f := forms[c.ChooseFree(len(forms))]
		if c.ChooseFree(2) == 1 {
			w = strings.ToLower(w)
		}
		s := f.pre + "`" + w + "`" + f.post
		c.Input(s)
		body(c, EntryByName(f.entry), s)
	})
}

// keywordReplaceSpace is S5k: every sentence of G with <=k deviations (k+1 in the thorough tier) with each of its
// keyword / pseudo-keyword tokens replaced by each sibling keyword, through the sentence's own entry point.
func keywordReplaceSpace(r *explore.Run, k int, body func(c *explore.Ctx, e *Entry, s string)) {
	if r.Tier == "thorough" && k < 2 {
		k++
	}
	r.Explore(explore.Options{Space: "S5k/keyword-replacements", MaxDev: k, SplitLen: 3,
		Bound: fmt.Sprintf("every sentence of G with <=%d deviations x every keyword position x each of %d sibling keywords", k, len(siblingKeywords))},
		func(c *explore.Ctx) {
			root := grammar.Roots[c.ChooseFree(len(grammar.Roots))]
			sent := grammar.Derive(c, root)
			en := specificEntry(sent.Kind)
			if en == "" {
				en = "ParseStatement"
			}
			e := EntryByName(en)
			c.Input(sent.Text())
			parts := make([]string, len(sent.Src))
			for i, t := range sent.Src {
				parts[i] = t.Text
			}
			text := func() string {
				var b strings.Builder
				for i, t := range sent.Src {
					b.WriteString(parts[i])
					if i+1 < len(sent.Src) && !t.NoGap {
						b.WriteByte(' ')
					}
				}
				return b.String()
			}
			for i, t := range sent.Src {
				if t.Class != grammar.KW && t.Class != grammar.PKW {
					continue
				}
				for _, w := range siblingKeywords {
					if w == t.Text {
						continue
					}
					parts[i] = w
					c.Count("edited_inputs", 1)
					body(c, e, text())
				}
				parts[i] = t.Text
			}
			c.OutcomeStr(sent.Text())
		})
}

// siblingKeywords are keywords that occur as alternatives of one another in the grammar.
var siblingKeywords = strings.Fields("ALL DISTINCT UNION INTERSECT EXCEPT ASC DESC FIRST LAST LEFT RIGHT FULL CROSS HASH LOOKUP NOT NULL IF EXISTS OR AND REPLACE IGNORE UPDATE " +
	"TRUE FALSE IN IS LIKE ROWS PERCENT BERNOULLI RESERVOIR STRUCT VALUE OFFSET ORDINAL SAFE_OFFSET STORED HIDDEN ASSERT_ROWS_MODIFIED CASCADE RESTRICT " +
	"INVOKER DEFINER ADD DROP SET ALTER CREATE TABLE INDEX NEW_VALUES OLD_AND_NEW_VALUES UNIQUE NULL_FILTERED ARRAY INTERVAL SELECT FROM AS WITH UNKNOWN")

// identReplaceSpace is S5r: every sentence of G with <=k deviations with each of its user-identifier tokens
// replaced by each reserved keyword (an input that is usually rejected, sometimes - keyword-named functions,
// fields after a dot - accepted).
func identReplaceSpace(r *explore.Run, k int, body func(c *explore.Ctx, e *Entry, s string)) {
	if r.Tier == "thorough" {
		k++
	}
	words := lexref.Reserved
	r.Explore(explore.Options{Space: "S5r/identifier-to-reserved-word", MaxDev: k, SplitLen: 3,
		Bound: fmt.Sprintf("every sentence of G with <=%d deviations x every identifier position x each of %d reserved words", k, len(words))},
		func(c *explore.Ctx) {
			root := grammar.Roots[c.ChooseFree(len(grammar.Roots))]
			sent := grammar.Derive(c, root)
			en := specificEntry(sent.Kind)
			if en == "" {
				en = "ParseStatement"
			}
			e := EntryByName(en)
			c.Input(sent.Text())
			parts := make([]string, len(sent.Src))
			for i, t := range sent.Src {
				parts[i] = t.Text
			}
			for i, t := range sent.Src {
				if t.Class != grammar.ID {
					continue
				}
				for _, w := range words {
					parts[i] = w
					var b strings.Builder
					for j, u := range sent.Src {
						b.WriteString(parts[j])
						if j+1 < len(sent.Src) && !u.NoGap {
							b.WriteByte(' ')
						}
					}
					c.Count("edited_inputs", 1)
					body(c, e, b.String())
				}
				parts[i] = t.Text
			}
			c.OutcomeStr(sent.Text())
		})
}

// checkTokensKept is C02's oracle for an arbitrary accepted input (no grammar sentence at hand): the
// significant tokens of SQL() must be those of the input, in the same order, after removing on both
// sides exactly the tokens the property lets the unparser drop or add: ',' and ';', the noise words
// INNER/OUTER/INTO, DELETE's FROM, ARE before ALL; '<>' may come back as '!='; an identifier may come
// back in upper case (pseudo keywords); the elements of a CREATE TABLE may be regrouped (compared as a multiset).
func checkTokensKept(e *Entry, s string, res ParseResult) map[string]string {
	viol := map[string]string{}
	if res.Err != nil || res.Panic != nil || len(res.Roots) == 0 {
		return viol
	}
	var sqls []string
	for _, r := range res.Roots {
		q, ok := safeSQL(r)
		if !ok {
			return viol // C04
		}
		sqls = append(sqls, q)
	}
	in, err1 := oracle.ImplLex(s)
	out, err2 := oracle.ImplLex(strings.Join(sqls, " ; "))
	if err1 != nil {
		return viol
	}
	if err2 != nil {
		viol["C02/sql-does-not-lex"] = fmt.Sprintf("%s(%q).SQL() = %q does not lex: %v", e.Name, s, strings.Join(sqls, " ; "), err2)
		return viol
	}
	type kt struct{ kind, val string }
	isWord := func(t oracle.ImplTok, w string) bool {
		return string(t.Kind) == w || t.Kind == "<ident>" && strings.EqualFold(t.AsString, w)
	}
	reduce := func(toks []oracle.ImplTok) []kt {
		var o []kt
		for i, t := range toks {
			k := string(t.Kind)
			switch {
			case k == "," || k == ";" || k == "<eof>" || k == "INNER" || k == "OUTER" || k == "INTO":
				continue
			case k == "FROM" && i > 0 && isWord(toks[i-1], "DELETE"):
				continue
			case isWord(t, "ARE") && i+1 < len(toks) && toks[i+1].Kind == "ALL":
				continue
			case k == "<ident>" || k == "<string>" || k == "<bytes>" || k == "<param>":
				o = append(o, kt{k, t.AsString})
			case k == "<int>" || k == "<float>":
				o = append(o, kt{k, t.Raw})
			case k == ">>":
				o = append(o, kt{">", ""}, kt{">", ""})
			case k == "<>" || k == "!=":
				o = append(o, kt{"<", ""}, kt{">", ""})
			default:
				o = append(o, kt{k, ""})
			}
		}
		return o
	}
	same := func(a, b kt) bool {
		if a == b {
			return true
		}
		return a.kind == "<ident>" && b.kind == "<ident>" && strings.EqualFold(a.val, b.val) && b.val == strings.ToUpper(b.val)
	}
	a, b := reduce(in), reduce(out)
	sql := strings.Join(sqls, " ; ")
	name := func(x kt) string {
		if x.kind == "<ident>" {
			return strings.ToUpper(x.val) // pseudo keywords are identifiers to the lexer
		}
		return x.kind
	}
	for _, v := range allNodes(res.Roots) {
		if _, ok := v.Node.(*ast.CreateTable); ok {
			// elements may be regrouped: compare as multisets
			used := make([]bool, len(b))
			for _, x := range a {
				found := false
				for j, y := range b {
					if !used[j] && same(x, y) {
						used[j], found = true, true
						break
					}
				}
				if !found {
					viol["C02/tokens/dropped/"+name(x)] = fmt.Sprintf("%s(%q).SQL() = %q: the token (%s %q) of the input has no counterpart in the output", e.Name, s, sql, x.kind, x.val)
					return viol
				}
			}
			for j, y := range b {
				if !used[j] {
					viol["C02/tokens/added/"+name(y)] = fmt.Sprintf("%s(%q).SQL() = %q: the token (%s %q) of the output has no counterpart in the input", e.Name, s, sql, y.kind, y.val)
					return viol
				}
			}
			return viol
		}
	}
	for i := 0; i < len(a) || i < len(b); i++ {
		switch {
		case i < len(a) && i < len(b) && same(a[i], b[i]):
			continue
		case i >= len(b) || i+1 < len(a) && same(a[i+1], b[i]):
			viol["C02/tokens/dropped/"+name(a[i])] = fmt.Sprintf("%s(%q).SQL() = %q: significant token #%d of the input (%s %q) is missing in the output", e.Name, s, sql, i, a[i].kind, a[i].val)
		case i >= len(a) || i+1 < len(b) && same(a[i], b[i+1]):
			viol["C02/tokens/added/"+name(b[i])] = fmt.Sprintf("%s(%q).SQL() = %q: the output has an extra significant token #%d (%s %q)", e.Name, s, sql, i, b[i].kind, b[i].val)
		default:
			viol["C02/tokens/changed/"+name(a[i])+"->"+name(b[i])] = fmt.Sprintf("%s(%q).SQL() = %q: significant token #%d is (%s %q) in the input but (%s %q) in the output", e.Name, s, sql, i, a[i].kind, a[i].val, b[i].kind, b[i].val)
		}
		break
	}
	return viol
}

func init() {
	Registry["C01"] = C01
	Registry["C02"] = C02
	// the grammar space for tree-based checks: every sentence through its entry points; sentences with
	// few deviations additionally in uniform re-spellings (positions must not depend on the trivia
	// being single blanks, nor on the line-ending convention)
	grammarTreeSpace = func(r *explore.Run, base int, body func(c *explore.Ctx, e *Entry, s string)) {
		// thorough tier: the same bound for all roots (one more deviation multiplies the sentences by ~50 and every
		// sentence is fed in two spellings through two entry points), but ten times the cap under which a root gets
		// one or two more deviations
		capPerRoot, respellBase := int64(30000), base
		if r.Tier == "thorough" {
			base--
			capPerRoot = 300000
		}
		grammarSpaceCap(r, "S4/grammar", base, capPerRoot, func(c *explore.Ctx, s *grammar.Sentence) {
			feed := func(text string) {
				c.Input(text)
				if se := specificEntry(s.Kind); se != "" {
					body(c, EntryByName(se), text)
				}
				if isStatementKind(s.Kind) {
					body(c, EntryByName("ParseStatement"), text)
				}
			}
			text := s.Text()
			c.Sample(s.Root + ": " + text)
			feed(text)
			// the tightest spelling: no blank wherever the two neighbours still lex as themselves (">>", "a.b", "f(")
			if tight := tightSpelling(s); tight != text {
				c.Count("tight_spellings", 1)
				feed(tight)
			}
			if c.Cost() <= respellBase-2 || c.Cost() <= 1 {
				for _, tr := range respellTrivia {
					var b strings.Builder
					for i, t := range s.Src {
						b.WriteString(t.Text)
						if i+1 < len(s.Src) && !t.NoGap {
							b.WriteString(tr)
						}
					}
					c.Count("respelled_sentences", 1)
					feed(b.String())
				}
			}
		})
	}
}

var glueOK sync.Map // "left\x00right" -> bool

// tightSpelling joins neighbouring tokens without a blank when reference lexer R1 still sees exactly the
// same two tokens in the glued text (decided pairwise, then confirmed on the whole text).
func tightSpelling(s *grammar.Sentence) string {
	var b strings.Builder
	for i, t := range s.Src {
		b.WriteString(t.Text)
		if i+1 == len(s.Src) || t.NoGap {
			continue
		}
		if t.Sticky || !canGlue(t.Text, s.Src[i+1].Text) {
			b.WriteByte(' ')
		}
	}
	tight := b.String()
	want, ok1 := sigTokens(s.Text())
	got, ok2 := sigTokens(tight)
	// two closing type brackets glue to the token ">>", which the parser splits again
	split := func(sig string) string {
		return strings.ReplaceAll(sig, ">>\x00\x000\x01", ">\x00\x000\x01>\x00\x000\x01")
	}
	if !ok1 || !ok2 || split(want) != split(got) {
		return s.Text()
	}
	return tight
}

func canGlue(a, b string) bool {
	if a == ">" && b == ">" {
		return true
	}
	key := a + "\x00" + b
	if v, ok := glueOK.Load(key); ok {
		return v.(bool)
	}
	w1, ok1 := sigTokens(a + " " + b)
	w2, ok2 := sigTokens(a + b)
	ok := ok1 && ok2 && w1 == w2
	glueOK.Store(key, ok)
	return ok
}

// respellTrivia are the uniform gap spellings used by the tree-based checks.
var respellTrivia = []string{"  ", "\r\n", " /*c*/ ", "\n-- c\n\t"}
