package checks

import (
	"fmt"
	"reflect"
	"strings"
	"sync"

	"github.com/cloudspannerecosystem/memefish"

	"verif/explore"
	"verif/grammar"
	"verif/oracle"
)

// specificEntry returns the specific entry point of a sentence kind ("" if only ParseStatement applies).
func specificEntry(kind string) string {
	switch kind {
	case "query":
		return "ParseQuery"
	case "ddl":
		return "ParseDDL"
	case "dml":
		return "ParseDML"
	case "expr":
		return "ParseExpr"
	case "type":
		return "ParseType"
	}
	return ""
}

func isStatementKind(kind string) bool { return kind != "expr" && kind != "type" }

// rootBounds gives every root of G its own deviation bound: base, base+1 or base+2, the
// largest for which the root has at most capPerRoot sentences (small productions are explored
// deeper; the count itself is an exploration with an empty body, abandoned when it exceeds the cap).
var (
	rootBoundsMu    sync.Mutex
	rootBoundsCache = map[string]map[string]int{}
)

func rootBounds(base int, capPerRoot int64) map[string]int {
	key := fmt.Sprintf("%d/%d", base, capPerRoot)
	rootBoundsMu.Lock()
	defer rootBoundsMu.Unlock()
	if m, ok := rootBoundsCache[key]; ok {
		return m
	}
	m := map[string]int{}
	for _, root := range grammar.Roots {
		root := root
		m[root.Name] = base
		for extra := 2; extra >= 1; extra-- {
			st := explore.Explore(explore.Options{Space: "count", MaxDev: base + extra, SplitLen: 1, StopAfter: capPerRoot}, func(c *explore.Ctx) {
				grammar.Derive(c, root)
			})
			if st.Exhaustive && st.Evaluations <= capPerRoot {
				m[root.Name] = base + extra
				break
			}
		}
	}
	rootBoundsCache[key] = m
	return m
}

// grammarSpace enumerates every sentence of every root of G within the root's deviation bound (S4):
// base deviations (base+1 in the thorough tier) for every root, one or two more for roots that stay
// below capPerRoot sentences.
func grammarSpace(r *explore.Run, name string, baseDev int, body func(c *explore.Ctx, s *grammar.Sentence)) {
	grammarSpaceCap(r, name, baseDev, 30000, body)
}

func grammarSpaceCap(r *explore.Run, name string, baseDev int, capPerRoot int64, body func(c *explore.Ctx, s *grammar.Sentence)) {
	k := baseDev
	if r.Tier == "thorough" {
		k++
	}
	bounds := map[string]int{}
	if r.Replaying() {
		for _, root := range grammar.Roots {
			bounds[root.Name] = k + 2
		}
	} else {
		bounds = rootBounds(k, capPerRoot)
	}
	for extra := 0; extra <= 2; extra++ {
		var roots []*grammar.Root
		for _, root := range grammar.Roots {
			if bounds[root.Name] == k+extra || r.Replaying() && extra == 2 {
				roots = append(roots, root)
			}
		}
		if len(roots) == 0 {
			continue
		}
		space := name
		if extra > 0 {
			space = fmt.Sprintf("%s+%d", name, extra)
		}
		var names []string
		for _, root := range roots {
			names = append(names, root.Name)
		}
		desc := fmt.Sprintf("every derivation of %d roots of reference grammar G with <=%d deviations from the minimal derivation", len(roots), k+extra)
		if extra > 0 {
			desc += " (roots with <= " + fmt.Sprint(capPerRoot) + " sentences at this bound: " + strings.Join(names, " ") + ")"
		}
		r.Explore(explore.Options{Space: space, MaxDev: k + extra, SplitLen: 2, Bound: desc},
			func(c *explore.Ctx) {
				root := roots[c.ChooseFree(len(roots))]
				s := grammar.Derive(c, root)
				body(c, s)
			})
	}
}

func errClass(err error) string {
	if err == nil {
		return "nil"
	}
	m := err.Error()
	if i := strings.Index(m, ": "); i >= 0 {
		// strip "syntax error: file:l:c: "
		if j := strings.Index(m[i+2:], ": "); j >= 0 {
			m = m[i+2+j+2:]
		}
	}
	return stripDigits(firstWords(m, 6))
}

// C08: the documented grammar is accepted; entry points agree.
func C08(r *explore.Run) {
	r.Rule = "every sentence of reference grammar G (written from the documentation, not from parser.go) within the deviation bound goes through its specific entry point and ParseStatement: nil error, identical trees including positions; " +
		"sentences with <=1 deviation additionally as lists [s] [s;] [d;s] [s;d] [d;s;d;] through the list entry points; non-trivial = sentence with >=1 deviation; distinct by token text"
	r.Assume = []string{"G is my reading of the Spanner documentation restricted to the forms memefish implements (harness/grammar/EXCLUDED.md)"}
	grammarSpace(r, "S4/grammar", 3, func(c *explore.Ctx, s *grammar.Sentence) {
		text := s.Text()
		c.Input(text)
		c.Sample(s.Root + ": " + text)
		c.OutcomeStr(text)
		if c.Cost() > 0 {
			c.Nontrivial(explore.Hash(text))
		}
		// the same sentence in uniform re-spellings (acceptance must not depend on single blanks)
		if c.Cost() <= 2 {
			// four uniform gap spellings, and keywords / pseudo keywords in lower and mixed case
			for ri := 0; ri < len(respellTrivia)+2; ri++ {
				tr, cs := " ", 0
				if ri < len(respellTrivia) {
					tr = respellTrivia[ri]
				} else {
					cs = ri - len(respellTrivia) + 1
				}
				var b strings.Builder
				for i, t := range s.Src {
					tx := t.Text
					if cs != 0 && (t.Class == grammar.KW || t.Class == grammar.PKW) {
						tx = caseVariant(tx, cs)
					}
					b.WriteString(tx)
					if i+1 < len(s.Src) && !t.NoGap {
						b.WriteString(tr)
					}
				}
				alt := b.String()
				for _, n := range []string{specificEntry(s.Kind), map[bool]string{true: "ParseStatement"}[isStatementKind(s.Kind)]} {
					if n == "" {
						continue
					}
					res := EntryByName(n).Call(alt)
					c.Count("respelled_calls", 1)
					if res.Panic == nil && res.Err != nil {
						c.Violation("C08/rejected/"+errClass(res.Err)+"/"+errContext(alt, res.Err), alt, fmt.Sprintf("%s rejects a re-spelled sentence of G (root %s): %v", n, s.Root, res.Err))
						break
					}
				}
			}
		}
		var results []ParseResult
		var names []string
		if se := specificEntry(s.Kind); se != "" {
			names = append(names, se)
		}
		if isStatementKind(s.Kind) {
			names = append(names, "ParseStatement")
		}
		for _, n := range names {
			res := EntryByName(n).Call(text)
			results = append(results, res)
			if res.Panic != nil {
				continue // C03
			}
			if res.Err != nil {
				c.Violation("C08/rejected/"+errClass(res.Err)+"/"+errContext(text, res.Err), text, fmt.Sprintf("%s rejects a sentence of G (root %s): %v", n, s.Root, res.Err))
				return
			}
		}
		if len(results) == 2 && results[0].Err == nil && results[1].Err == nil && results[0].Panic == nil && results[1].Panic == nil {
			if !reflect.DeepEqual(results[0].Roots, results[1].Roots) {
				d := oracle.EqualUpToPos(results[0].Roots[0], results[1].Roots[0])
				if d == "" {
					d = "positions differ"
				}
				c.Violation("C08/entry-points-disagree/"+s.Root+"/"+oracle.SigOf(d), text, fmt.Sprintf("%s and %s return different trees: %s", names[0], names[1], d))
			}
		}
		// lists
		if c.Cost() <= 1 && isStatementKind(s.Kind) {
			listEntry := map[string]string{"query": "", "ddl": "ParseDDLs", "dml": "ParseDMLs", "call": ""}[s.Kind]
			def := map[string]string{"query": "SELECT 1", "ddl": "DROP TABLE t", "dml": "DELETE FROM t WHERE TRUE", "call": "CALL p()"}[s.Kind]
			forms := []struct {
				text string
				n    int
			}{{text, 1}, {text + " ;", 1}, {def + " ; " + text, 2}, {text + " ; " + def, 2}, {def + " ; " + text + " ; " + def + " ;", 3}}
			for _, le := range []string{"ParseStatements", listEntry} {
				if le == "" {
					continue
				}
				for _, f := range forms {
					res := EntryByName(le).Call(f.text)
					c.Count("list_calls", 1)
					if res.Panic != nil {
						continue
					}
					if res.Err != nil {
						c.Violation("C08/list-rejected/"+errClass(res.Err)+"/"+errContext(f.text, res.Err), f.text, fmt.Sprintf("%s rejects a list of sentences of G: %v", le, res.Err))
					} else if len(res.Roots) != f.n {
						c.Violation("C08/list-length/"+s.Root+"/"+le, f.text, fmt.Sprintf("%s returns %d statements, want %d", le, len(res.Roots), f.n))
					}
				}
			}
		}
	})
}

// kwLikeIdents are non-reserved words that the grammar uses as pseudo keywords or type names: as they are not
// reserved, each of them is also an ordinary identifier.
var kwLikeIdents = strings.Fields("INT64 STRING DATE BOOL JSON BYTES FLOAT64 NUMERIC TIMESTAMP TOKENLIST ACTION ADD ALTER ANALYZE BERNOULLI CALL CASCADE CHANGE COLUMN " +
	"CONSTRAINT DATABASE DELETE DROP FIRST GENERATED GRANT HIDDEN IDENTITY INDEX INSERT INTERLEAVE INVOKER KEY LAST MAX MODEL OFFSET OPTIONS ORDINAL PARENT PERCENT " +
	"POLICY PRIMARY REPLACE RESERVOIR RETURN REVOKE ROLE ROW SAFE_CAST SAFE_OFFSET SECURITY SEQUENCE STORED STREAM TABLE UPDATE VALUE VALUES VIEW REPLACE_FIELDS UNKNOWN date value offset")

var simpleTypeNames = map[string]bool{"INT64": true, "STRING": true, "DATE": true, "BOOL": true, "JSON": true, "BYTES": true, "FLOAT64": true, "NUMERIC": true, "TIMESTAMP": true, "TOKENLIST": true, "FLOAT32": true, "INTERVAL": true}

// identSubstitution: G's identifier positions take any identifier, so a sentence stays a sentence when one of
// its plain identifiers is renamed to a non-reserved word the grammar also uses as a pseudo keyword.
func identSubstitution(r *explore.Run) {
	k := 2
	r.Explore(explore.Options{Space: "S4i/identifier-renamings", MaxDev: k, SplitLen: 3,
		Bound: fmt.Sprintf("every sentence of G with <=%d deviations x every plain identifier x each of %d keyword-like non-reserved names", k, len(kwLikeIdents))},
		func(c *explore.Ctx) {
			root := grammar.Roots[c.ChooseFree(len(grammar.Roots))]
			s := grammar.Derive(c, root)
			c.Input(s.Text())
			parts := make([]string, len(s.Src))
			for i, t := range s.Src {
				parts[i] = t.Text
			}
			names := []string{specificEntry(s.Kind)}
			if isStatementKind(s.Kind) {
				names = append(names, "ParseStatement")
			}
			// the sentence itself must be accepted (a rejected one is C08's main space's business)
			for _, n := range names {
				if n != "" {
					if res := EntryByName(n).Call(s.Text()); res.Panic != nil || res.Err != nil {
						return
					}
				}
			}
			for i, t := range s.Src {
				if t.Class != grammar.ID || t.Text != t.Val {
					continue
				}
				prevT, nextT := "", ""
				if i > 0 {
					prevT = strings.ToUpper(s.Src[i-1].Text)
				}
				if i+1 < len(s.Src) {
					nextT = s.Src[i+1].Text
				}
				for _, w := range kwLikeIdents {
					// places where the documentation's own grammar gives the word its keyword meaning
					switch u := strings.ToUpper(w); {
					case (u == "SAFE_CAST" || u == "REPLACE_FIELDS") && nextT == "(": // the cast / replace-fields syntax itself
						continue
					case (u == "TABLE" || u == "MODEL" || u == "SEQUENCE") && (prevT == "(" || prevT == ","): // TABLE t / MODEL m / SEQUENCE s arguments
						continue
					case u == "CONSTRAINT" && (prevT == "(" || prevT == ","): // CONSTRAINT name ... in a table element list
						continue
					case u == "PARENT" && prevT == "IN": // INTERLEAVE IN [PARENT] t
						continue
					case (u == "STRING" || u == "BYTES") && s.Kind == "ddl": // a column type STRING / BYTES needs its length
						continue
					case simpleTypeNames[u] && nextT == "." && (s.Kind == "type" || s.Kind == "ddl"): // a named type whose path starts like a built-in type
						continue
					case (u == "ALTER" || u == "DROP" || u == "SET") && i >= 2 && strings.ToUpper(s.Src[i-2].Text) == "COLUMN": // ALTER COLUMN c ALTER/DROP/SET ...
						continue
					case u == "SEQUENCE" && prevT == "DISTINCT": // first argument position as well
						continue
					case u == "VALUE" && prevT == "AS": // SELECT AS VALUE
						continue
					}
					parts[i] = w
					var b strings.Builder
					for j, u := range s.Src {
						b.WriteString(parts[j])
						if j+1 < len(s.Src) && !u.NoGap {
							b.WriteByte(' ')
						}
					}
					x := b.String()
					c.Count("renamed_sentences", 1)
					c.Nontrivial(explore.Hash(x))
					for _, n := range names {
						if n == "" {
							continue
						}
						res := EntryByName(n).Call(x)
						if res.Panic == nil && res.Err != nil {
							prev := "<start>"
							if i > 0 {
								prev = strings.ToUpper(s.Src[i-1].Text)
							}
							c.Violation("C08/renamed-identifier-rejected/"+strings.ToUpper(w)+"/after="+prev, x, fmt.Sprintf("%s rejects a sentence of G (root %s) whose identifier #%d is named %s: %v", n, s.Root, i, w, res.Err))
							break
						}
					}
				}
				parts[i] = t.Text
			}
			c.OutcomeStr(s.Text())
		})
}

func init() {
	Registry["C08"] = func(r *explore.Run) { C08(r); identSubstitution(r) }
}

// errContext names the token at the first error's position and the one before it.
func errContext(text string, err error) string {
	me, ok := err.(memefish.MultiError)
	if !ok || len(me) == 0 || me[0] == nil || me[0].Position == nil {
		return "?"
	}
	pos := int(me[0].Position.Pos)
	toks, _ := oracle.ImplLex(text)
	at, prev := "<eof>", "<start>"
	for i, t := range toks {
		if t.Pos >= pos {
			at = string(t.Kind)
			if i > 0 {
				prev = string(toks[i-1].Kind)
			}
			return "prev=" + prev + "/at=" + at
		}
	}
	if len(toks) > 0 {
		prev = string(toks[len(toks)-1].Kind)
	}
	return "prev=" + prev + "/at=" + at
}
