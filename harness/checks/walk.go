package checks

import (
	"bytes"
	"fmt"
	"os"
	"os/exec"
	"path/filepath"
	"reflect"
	"strings"
	"sync"

	"github.com/cloudspannerecosystem/memefish/ast"
	"github.com/cloudspannerecosystem/memefish/tools/util/astcatalog"
	"github.com/cloudspannerecosystem/memefish/tools/util/poslang"

	"verif/explore"
	"verif/oracle"
)

// pruneVisitor records (node identity, path) for each Visit and prunes the
// nodes whose preorder index (in visit order) is in the prune set.
type walkLog struct {
	nodes  []ast.Node
	paths  []string
	owners []int // for each visit: the visit whose returned visitor the callbacks leading here were made on (-1: the initial visitor)
	many   int
	prune  func(n ast.Node) bool
}

// pruneVisitor: every Visit returns a fresh visitor that knows which visit created it; Field/Index hand
// that knowledge on. A child must be reached through the visitor its parent's Visit returned.
type pruneVisitor struct {
	log   *walkLog
	path  string
	owner int
}

func (v *pruneVisitor) Visit(n ast.Node) ast.Visitor {
	v.log.nodes = append(v.log.nodes, n)
	v.log.paths = append(v.log.paths, v.path)
	v.log.owners = append(v.log.owners, v.owner)
	if v.log.prune != nil && v.log.prune(n) {
		return nil
	}
	return &pruneVisitor{v.log, v.path, len(v.log.nodes) - 1}
}
func (v *pruneVisitor) VisitMany(ns []ast.Node) ast.Visitor { v.log.many++; return v }
func (v *pruneVisitor) Field(name string) ast.Visitor {
	return &pruneVisitor{v.log, v.path + "." + name, v.owner}
}
func (v *pruneVisitor) Index(i int) ast.Visitor {
	return &pruneVisitor{v.log, fmt.Sprintf("%s[%d]", v.path, i), v.owner}
}

func sameNode(a, b ast.Node) bool {
	va, vb := reflect.ValueOf(a), reflect.ValueOf(b)
	if va.Kind() == reflect.Pointer && vb.Kind() == reflect.Pointer {
		return va.Pointer() == vb.Pointer() && va.Type() == vb.Type()
	}
	return reflect.DeepEqual(a, b)
}

// expectedWalk: R5 preorder with pruned subtrees removed.
func expectedWalk(vs []oracle.Visit, pruned map[int]bool) []int {
	var out []int
	skipDepth := -1
	for i, v := range vs {
		if skipDepth >= 0 {
			if v.Depth > skipDepth {
				continue
			}
			skipDepth = -1
		}
		out = append(out, i)
		if pruned[i] {
			skipDepth = v.Depth
		}
	}
	return out
}

// checkWalkOnce compares one Walk (with a prune set over R5 preorder indices) with R5.
func checkWalkOnce(root ast.Node, vs []oracle.Visit, pruned map[int]bool, prefix string) (sig, detail string) {
	idx := map[uintptr]int{}
	for i, v := range vs {
		rv := reflect.ValueOf(v.Node)
		if rv.Kind() == reflect.Pointer {
			idx[rv.Pointer()] = i
		}
	}
	lg := &walkLog{}
	lg.prune = func(n ast.Node) bool {
		rv := reflect.ValueOf(n)
		if rv.Kind() != reflect.Pointer {
			return false
		}
		i, ok := idx[rv.Pointer()]
		return ok && pruned[i]
	}
	if pv, _ := explore.Try(func() { ast.Walk(root, &pruneVisitor{lg, prefix, -1}) }); pv != nil {
		return "", "" // C04
	}
	want := expectedWalk(vs, pruned)
	visitPos := map[int]int{}
	for k := 0; k < len(want) || k < len(lg.nodes); k++ {
		if k >= len(lg.nodes) {
			w := vs[want[k]]
			par := "root"
			if w.Parent >= 0 {
				par = oracle.TypeName(vs[w.Parent].Node)
			}
			return "C17/missing/" + par + "." + fieldOfPath(w.Path), fmt.Sprintf("Walk stops after %d nodes; R5 expects %s at %s next (pruned=%v)", k, oracle.TypeName(w.Node), w.Path, keys(pruned))
		}
		if k >= len(want) {
			return "C17/extra/" + oracle.TypeName(lg.nodes[k]), fmt.Sprintf("Walk visits %s at %s beyond the %d expected nodes (pruned=%v)", oracle.TypeName(lg.nodes[k]), lg.paths[k], len(want), keys(pruned))
		}
		w := vs[want[k]]
		if !sameNode(lg.nodes[k], w.Node) {
			par := "root"
			if w.Parent >= 0 {
				par = oracle.TypeName(vs[w.Parent].Node)
			}
			return "C17/order-or-set/" + par + "." + fieldOfPath(w.Path), fmt.Sprintf("visit %d: Walk gives %s at %s, R5 expects %s at %s (pruned=%v)", k, oracle.TypeName(lg.nodes[k]), lg.paths[k], oracle.TypeName(w.Node), w.Path, keys(pruned))
		}
		wantOwner := -1
		if w.Parent >= 0 {
			wantOwner = visitPos[w.Parent]
		}
		visitPos[want[k]] = k
		if lg.owners[k] != wantOwner {
			par := "root"
			if w.Parent >= 0 {
				par = oracle.TypeName(vs[w.Parent].Node)
			}
			return "C17/visitor-chain/" + par, fmt.Sprintf("visit %d (%s at %s) was reached through the visitor returned by visit %d, not through the one its parent's Visit (visit %d) returned", k, oracle.TypeName(w.Node), w.Path, lg.owners[k], wantOwner)
		}
		if lg.paths[k] != prefix+w.Path {
			par := "root"
			if w.Parent >= 0 {
				par = oracle.TypeName(vs[w.Parent].Node)
			}
			return "C17/path/" + par + "." + fieldOfPath(w.Path), fmt.Sprintf("visit %d (%s): Field/Index callbacks spell %q, real path is %q", k, oracle.TypeName(w.Node), lg.paths[k], prefix+w.Path)
		}
	}
	return "", ""
}

func keys(m map[int]bool) []int {
	var k []int
	for i := range m {
		k = append(k, i)
	}
	return k
}

var shapeSeen sync.Map // shape hash -> true : prune enumeration done

// checkTraversal is C17's oracle for one tree.
func checkTraversal(c *explore.Ctx, roots []ast.Node, list bool, maxAll int, witness string) {
	report := func(sig, d string) {
		if sig != "" {
			c.Violation(sig, witness, d)
		}
	}
	for _, root := range roots {
		if oracle.IsNilNode(root) {
			continue
		}
		vs := oracle.Preorder(root)
		report(checkWalkOnce(root, vs, nil, ""))
		c.Count("walks", 1)
		// Inspect/Preorder agree with Walk on the node sequence
		var ins []ast.Node
		explore.Try(func() { ast.Inspect(root, func(n ast.Node) bool { ins = append(ins, n); return true }) })
		var pre []ast.Node
		explore.Try(func() {
			for n := range ast.Preorder(root) {
				pre = append(pre, n)
			}
		})
		if len(ins) != len(vs) || len(pre) != len(vs) {
			report("C17/inspect-preorder-count", fmt.Sprintf("R5 has %d nodes, Inspect %d, Preorder %d", len(vs), len(ins), len(pre)))
		} else {
			for i := range vs {
				if !sameNode(ins[i], vs[i].Node) || !sameNode(pre[i], vs[i].Node) {
					report("C17/inspect-preorder-order", fmt.Sprintf("node %d differs from R5's %s at %s", i, oracle.TypeName(vs[i].Node), vs[i].Path))
					break
				}
			}
		}
		sh := explore.Hash(shapeOf([]ast.Node{root}))
		if _, done := shapeSeen.LoadOrStore(sh, true); done {
			continue
		}
		c.Count("distinct_shapes_pruned", 1)
		n := len(vs)
		if n <= maxAll {
			for mask := 1; mask < 1<<n; mask++ {
				pr := map[int]bool{}
				for i := 0; i < n; i++ {
					if mask&(1<<i) != 0 {
						pr[i] = true
					}
				}
				report(checkWalkOnce(root, vs, pr, ""))
				c.Count("walks", 1)
			}
		} else {
			for i := 0; i < n; i++ {
				report(checkWalkOnce(root, vs, map[int]bool{i: true}, ""))
				c.Count("walks", 1)
				if n <= 40 {
					for j := i + 1; j < n; j++ {
						report(checkWalkOnce(root, vs, map[int]bool{i: true, j: true}, ""))
						c.Count("walks", 1)
					}
				}
			}
		}
		// a traversal aborted by a panicking visitor must not influence later traversals
		for i := 0; i < n && i < 6; i++ {
			k := 0
			explore.Try(func() {
				ast.Inspect(root, func(ast.Node) bool {
					if k == i {
						panic("abort traversal")
					}
					k++
					return true
				})
			})
			if sig, d := checkWalkOnce(root, vs, nil, ""); sig != "" {
				report("C17/after-aborted-walk/"+strings.TrimPrefix(sig, "C17/"), "after a traversal aborted by a panic in the visitor at node "+fmt.Sprint(i)+": "+d)
				break
			}
			c.Count("walks", 2)
		}
		// Inspect with false at node i == prune {i}; Preorder stops after i nodes
		for i := 0; i <= n; i++ {
			k := 0
			explore.Try(func() {
				for range ast.Preorder(root) {
					if k == i {
						break
					}
					k++
				}
			})
			cnt := 0
			stop := false
			explore.Try(func() {
				ast.Preorder(root)(func(ast.Node) bool {
					if stop {
						cnt = -1 << 20 // yield called again after the consumer stopped
					}
					cnt++
					if cnt > i {
						stop = true
						return false
					}
					return true
				})
			})
			// a Preorder sequence value must be re-iterable: break at node i, then iterate it again completely
			if i < n {
				seq := ast.Preorder(root)
				second := 0
				explore.Try(func() {
					k := 0
					for range seq {
						if k == i {
							break
						}
						k++
					}
					for range seq {
						second++
					}
				})
				if second != n {
					report("C17/preorder-reuse", fmt.Sprintf("iterating the same Preorder sequence again after breaking at node %d yields %d nodes, want %d", i, second, n))
				}
			}
			want := i + 1
			if want > n {
				want = n
			}
			if cnt != want {
				report("C17/preorder-early-exit", fmt.Sprintf("consumer stops at node %d of %d: yield was called %d times, want %d", i, n, cnt, want))
			}
			c.Count("walks", 1)
		}
	}
	if list {
		// *Many variants: concatenation with [i] path prefixes
		lg := &walkLog{}
		if pv, _ := explore.Try(func() { ast.WalkMany(roots, &pruneVisitor{lg, "", -1}) }); pv == nil {
			var wantPaths []string
			var wantNodes []ast.Node
			for i, root := range roots {
				for _, v := range oracle.Preorder(root) {
					wantPaths = append(wantPaths, fmt.Sprintf("[%d]%s", i, v.Path))
					wantNodes = append(wantNodes, v.Node)
				}
			}
			ok := len(wantPaths) == len(lg.paths)
			for i := 0; ok && i < len(wantPaths); i++ {
				ok = wantPaths[i] == lg.paths[i] && sameNode(wantNodes[i], lg.nodes[i])
			}
			if !ok {
				report("C17/walkmany", fmt.Sprintf("WalkMany visits %v, want %v", lg.paths, wantPaths))
			}
			var pm []ast.Node
			explore.Try(func() {
				for n := range ast.PreorderMany(roots) {
					pm = append(pm, n)
				}
			})
			if len(pm) != len(wantNodes) {
				report("C17/preordermany", fmt.Sprintf("PreorderMany yields %d nodes, want %d", len(pm), len(wantNodes)))
			}
			// PreorderMany stops as soon as the consumer stops (also across roots)
			for i := 0; i < len(wantNodes) && i < 40; i++ {
				cnt, stop := 0, false
				explore.Try(func() {
					ast.PreorderMany(roots)(func(ast.Node) bool {
						if stop {
							cnt = -1 << 20
						}
						cnt++
						if cnt > i {
							stop = true
							return false
						}
						return true
					})
				})
				if cnt != i+1 {
					report("C17/preordermany-early-exit", fmt.Sprintf("consumer stops at node %d of %d (over %d roots): yield was called %d times, want %d", i, len(wantNodes), len(roots), cnt, i+1))
					break
				}
			}
		}
	}
}

// checkSourceOrder: field-declaration order is source order, so on an error-free parse the children of
// a node (in traversal order, which checkTraversal ties to R5) start at non-decreasing positions.
// CreateTable is exempt (the property C05 names its kind-grouped elements).
func checkSourceOrder(roots []ast.Node) map[string]string {
	viol := map[string]string{}
	for _, root := range roots {
		if oracle.IsNilNode(root) {
			continue
		}
		vs := oracle.Preorder(root)
		last := map[int]int{}
		for i, v := range vs {
			if v.Parent < 0 {
				continue
			}
			if _, isCT := vs[v.Parent].Node.(*ast.CreateTable); isCT {
				continue
			}
			p, _, ok := safePosEnd(v.Node)
			if !ok || p < 0 {
				continue
			}
			if j, seen := last[v.Parent]; seen {
				if q, _, ok2 := safePosEnd(vs[j].Node); ok2 && q >= 0 && p < q {
					ptn := oracle.TypeName(vs[v.Parent].Node)
					viol["C17/source-order/"+ptn+"."+fieldOfPath(vs[j].Path)+"-"+fieldOfPath(v.Path)] = fmt.Sprintf("under %s the traversal visits %s (starts at %d) before %s (starts at %d): siblings are not in source order", ptn, vs[j].Path, q, v.Path, p)
				}
			}
			last[v.Parent] = i
		}
	}
	return viol
}

// C17: traversal.
func C17(r *explore.Run) {
	r.Rule = "every tree of the S3 token strings, corpus files, grammar sentences and synthetic node shapes (S7): Walk with a path-recording visitor == reflective preorder R5 (nodes, order, Field/Index paths); Inspect/Preorder agree; on error-free parses siblings start at non-decreasing positions; for every distinct tree shape all prune sets (<= maxAll nodes) or all prune sets of size <=2, and every early-exit index of Preorder; *Many variants on lists; " +
		"non-trivial = tree with >=2 nodes; distinct by (entry point, tree shape)"
	r.Assume = []string{"Walk's behaviour depends only on the tree shape (node types and which children are present), so prune sets are enumerated once per distinct shape"}
	maxAll := 8
	if r.Tier == "thorough" {
		maxAll = 12
	}
	treeSpacesMode(r, 2, "full", func(c *explore.Ctx, e *Entry, s string, res ParseResult) {
		checkTraversal(c, res.Roots, !e.Single, maxAll, e.Name+": "+s)
		if res.Err == nil {
			for sig, d := range checkSourceOrder(res.Roots) {
				c.Violation(sig, e.Name+": "+s, d)
			}
		}
		outcomeTree(c, e, s, res)
	})
	shapesSpace(r, func(c *explore.Ctx, n ast.Node, desc string) {
		checkTraversal(c, []ast.Node{n}, false, maxAll, "shape: "+desc)
		c.OutcomeStr(shapeOf([]ast.Node{n}))
		c.Nontrivial(explore.Hash(desc))
	})
}

// ---------------------------------------------------------------------------
// C19

type posSpec struct {
	pos, end       poslang.PosExpr
	posSrc, endSrc string
}

var (
	catalogOnce sync.Once
	catalog     *astcatalog.Catalog
	posSpecs    map[string]*posSpec
	catalogErr  error
)

func repoDir() string {
	if d := os.Getenv("VERIF_REPO"); d != "" {
		return d
	}
	return "/repo"
}

func loadCatalog() {
	catalogOnce.Do(func() {
		repo := repoDir()
		catalog, catalogErr = astcatalog.Load(filepath.Join(repo, "ast/ast.go"), filepath.Join(repo, "ast/ast_const.go"))
		if catalogErr != nil {
			return
		}
		posSpecs = map[string]*posSpec{}
		for name, def := range catalog.Structs {
			p, err1 := poslang.Parse(def.Pos)
			e, err2 := poslang.Parse(def.End)
			if err1 != nil || err2 != nil {
				catalogErr = fmt.Errorf("%s: cannot parse pos/end spec: %v %v", name, err1, err2)
				return
			}
			pp, ok1 := p.(poslang.PosExpr)
			ee, ok2 := e.(poslang.PosExpr)
			if !ok1 || !ok2 {
				catalogErr = fmt.Errorf("%s: pos/end spec is not a position expression", name)
				return
			}
			posSpecs[string(name)] = &posSpec{pp, ee, def.Pos, def.End}
		}
	})
}

// checkPosSpec compares compiled Pos()/End() with the interpreter on one node.
func checkPosSpec(n ast.Node) map[string]string {
	viol := map[string]string{}
	tn := oracle.TypeName(n)
	sp, ok := posSpecs[tn]
	if !ok {
		viol["C19/no-spec/"+tn] = "node type has no pos/end documentation in ast/ast.go"
		return viol
	}
	for _, m := range []struct {
		name string
		ex   poslang.PosExpr
		src  string
		call func() int
	}{
		{"Pos", sp.pos, sp.posSrc, func() int { return int(n.Pos()) }},
		{"End", sp.end, sp.endSrc, func() int { return int(n.End()) }},
	} {
		var got, want int
		pv1, _ := explore.Try(func() { got = m.call() })
		pv2, _ := explore.Try(func() { want = int(m.ex.EvalPos(n)) })
		switch {
		case pv1 != nil && pv2 != nil:
		case pv1 != nil || pv2 != nil:
			viol["C19/"+m.name+"/"+tn+"/panic-disagreement"] = fmt.Sprintf("%s.%s(): compiled panic=%v, interpreter of %q panic=%v", tn, m.name, pv1, m.src, pv2)
		case got != want:
			viol["C19/"+m.name+"/"+tn] = fmt.Sprintf("%s.%s() = %d, documentation %q evaluates to %d", tn, m.name, got, m.src, want)
		}
		// independent reading of the documentation string (does not use the repository's poslang package)
		if pv1 == nil {
			if ind, err := oracle.EvalPosDoc(m.src, n); err == nil && ind != got {
				viol["C19/"+m.name+"/"+tn+"/independent-reading"] = fmt.Sprintf("%s.%s() = %d, but the documented expression %q means %d (the repository's interpreter says %d)", tn, m.name, got, m.src, ind, want)
			}
		}
	}
	return viol
}

// generatorsMatch runs the repository's generators and compares with the checked-in files.
func generatorsMatch(r *explore.Run) {
	if r.Replaying() {
		return
	}
	repo := repoDir()
	for _, g := range []struct{ tool, out string }{
		{"./tools/gen-ast-pos/main.go", "ast/pos.go"},
		{"./tools/gen-ast-walk/main.go", "ast/walk_internal.go"},
	} {
		cmd := exec.Command("go", "run", g.tool, "-astfile", "ast/ast.go", "-constfile", "ast/ast_const.go")
		cmd.Dir = repo
		cmd.Env = append(os.Environ(), "GOFLAGS=-mod=mod")
		var stderr bytes.Buffer
		cmd.Stderr = &stderr
		out, err := cmd.Output()
		if err != nil {
			r.AddViolation("C19/generator-fails/"+g.out, g.tool, fmt.Sprintf("generator failed: %v\n%s", err, stderr.String()))
			continue
		}
		have, err := os.ReadFile(filepath.Join(repo, g.out))
		if err != nil {
			r.AddViolation("C19/generated-file-missing/"+g.out, g.out, err.Error())
			continue
		}
		// the repository formats generated output with gofmt-compatible text already; compare bytes
		if !bytes.Equal(out, have) {
			// find first differing line
			a, b := strings.Split(string(out), "\n"), strings.Split(string(have), "\n")
			i := 0
			for i < len(a) && i < len(b) && a[i] == b[i] {
				i++
			}
			ga, hb := "<eof>", "<eof>"
			if i < len(a) {
				ga = a[i]
			}
			if i < len(b) {
				hb = b[i]
			}
			// name the enclosing method/case for the signature
			ctx := ""
			for j := i; j >= 0 && j < len(b); j-- {
				t := strings.TrimSpace(b[j])
				if strings.HasPrefix(t, "func ") || strings.HasPrefix(t, "case ") {
					ctx = t
					break
				}
			}
			r.AddViolation("C19/generated-differs/"+g.out+"/"+stripDigits(ctx), g.out, fmt.Sprintf("line %d: generator emits %q, checked-in file has %q (in %s)", i+1, ga, hb, ctx))
		}
		r.Extra("generator:"+g.out, fmt.Sprintf("%d bytes compared", len(out)))
	}
}

// C19: generated Pos/End/Walk equal the documentation.
func C19(r *explore.Run) {
	r.Level = "translation_validation"
	r.Rule = "programs = node structs of ast/ast.go (each with its Pos, End and Walk case): (a) the repository's generators are re-run and compared byte for byte with ast/pos.go and ast/walk_internal.go; " +
		"(b) for every struct every valuation of its fields (S7: nil/non-nil children, slice lengths 0/1/2, valid/invalid positions, bools) compares compiled Pos()/End() with the poslang interpreter on the documentation strings, and Walk's children with the catalog's node-typed fields in declaration order; " +
		"(c) the same comparison on every node of every tree of the S3 token strings, corpus and grammar sentences; non-trivial = node whose pos/end expression has a choice, an offset or a slice index"
	r.Assume = []string{"`go run` of the repository's generators is trusted", "the poslang interpreter is the oracle the property names"}
	loadCatalog()
	if catalogErr != nil {
		r.AddViolation("C19/catalog", "ast/ast.go", catalogErr.Error())
		return
	}
	generatorsMatch(r)
	r.Extra("programs", len(catalog.Structs))
	r.Extra("disagreements_checked", 0)
	var nodeTypes sync.Map
	treeSpacesMode(r, 2, "full", func(c *explore.Ctx, e *Entry, s string, res ParseResult) {
		for _, v := range allNodes(res.Roots) {
			for sig, d := range checkPosSpec(v.Node) {
				c.Violation(sig, e.Name+": "+s, d)
			}
			c.Count("nodes_compared", 1)
			nodeTypes.Store(oracle.TypeName(v.Node), true)
		}
		outcomeTree(c, e, s, res)
	})
	shapesSpace(r, func(c *explore.Ctx, n ast.Node, desc string) {
		for sig, d := range checkPosSpec(n) {
			c.Violation(sig, "shape: "+desc, d)
		}
		checkWalkFields(c, n, desc)
		c.Count("shapes_compared", 1)
		c.OutcomeStr(desc)
		c.Nontrivial(explore.Hash(desc))
	})
	cnt := 0
	nodeTypes.Range(func(k, v any) bool { cnt++; return true })
	r.Extra("node_types_reached_by_parsing", cnt)
}

// checkWalkFields: Walk's direct children == the catalog's node-typed fields in declaration order.
func checkWalkFields(c *explore.Ctx, n ast.Node, desc string) {
	tn := oracle.TypeName(n)
	def, ok := catalog.Structs[astcatalog.NodeStructType(tn)]
	if !ok {
		return
	}
	var want []string
	rv := reflect.ValueOf(n).Elem()
	// the fields come from the compiled struct type, in declaration order (reflect), not from the catalog that
	// the generators read: a field the catalog loader drops is dropped from the generated Walk as well
	if len(def.Fields) != rv.NumField() {
		c.Violation("C19/catalog-fields/"+tn, "shape: "+desc, fmt.Sprintf("the catalog lists %d fields of %s, the struct has %d", len(def.Fields), tn, rv.NumField()))
	}
	for i := 0; i < rv.NumField(); i++ {
		f := rv.Type().Field(i)
		fv := rv.Field(i)
		if !f.IsExported() {
			continue
		}
		// node-typed by Go's type system (not by the catalog's own classification, which the generators share)
		ft := fv.Type()
		if !(ft.Implements(nodeTypeRT) || ft.Kind() == reflect.Slice && ft.Elem().Implements(nodeTypeRT)) {
			continue
		}
		if fv.Kind() == reflect.Slice {
			for i := 0; i < fv.Len(); i++ {
				want = append(want, fmt.Sprintf(".%s[%d]", f.Name, i))
			}
		} else if !fv.IsNil() {
			want = append(want, "."+f.Name)
		}
	}
	lg := &walkLog{}
	depth1 := func(p string) bool { return p != "" && strings.Count(p, ".") == 1 }
	if pv, _ := explore.Try(func() { ast.Walk(n, &pruneVisitor{lg, "", -1}) }); pv != nil {
		return
	}
	var got []string
	for _, p := range lg.paths {
		if depth1(p) {
			got = append(got, p)
		}
	}
	if strings.Join(got, " ") != strings.Join(want, " ") {
		c.Violation("C19/walk-fields/"+tn, "shape: "+desc, fmt.Sprintf("Walk enumerates children %v, the struct's node-typed fields in declaration order are %v", got, want))
	}
}

var nodeTypeRT = reflect.TypeOf((*ast.Node)(nil)).Elem()

func isNodeTyped(t astcatalog.Type) bool {
	switch x := t.(type) {
	case *astcatalog.PointerType:
		_, ok := x.Type.(astcatalog.NodeStructType)
		return ok
	case *astcatalog.SliceType:
		return isNodeTyped(x.Type)
	case astcatalog.NodeInterfaceType:
		return true
	}
	return false
}

// shapesSpace is S7 (defined in shapes.go).
var shapesSpace = func(r *explore.Run, body func(c *explore.Ctx, n ast.Node, desc string)) {}

func init() {
	Registry["C17"] = C17
	Registry["C19"] = C19
}
