package checks

import (
	"fmt"
	"strings"

	"verif/explore"
	"verif/grammar"
	"verif/oracle"
	"verif/spaces"
)

// EditAlphabet is the token alphabet of S5 (single-edit neighbourhood).
var EditAlphabet = append([]string{"(", ")", "[", "]", ",", ";", ".", "*", "AS", "FROM", "SELECT", "WHERE", "END", "THEN", "a", "1", "<", ">", ">>", "\r"}, spaces.Malformed...)

// editSpace is S5: for every sentence of G with at most seedDev deviations, every
// token deletion, adjacent swap, truncation, replacement and insertion with each
// token of the edit alphabet, and every gap replaced by a comment or removed.
func editSpace(r *explore.Run, seedBase int, body func(c *explore.Ctx, e *Entry, s string)) {
	editSpaceMode(r, seedBase, "both", body)
}

// editSpaceMode: mode "full" = every edit kind on seeds with <=k deviations; "light" = the edit kinds that do
// not involve the edit alphabet on seeds with <=k+1 deviations; "both" = full on <=k plus light on exactly k+1.
// In the thorough tier the full edits are also applied to the seeds with k+1 deviations of the roots that stay small.
func editSpaceMode(r *explore.Run, seedBase int, mode string, body func(c *explore.Ctx, e *Entry, s string)) {
	k := seedBase
	A := EditAlphabet
	if mode == "full" || mode == "both" {
		editSpaceRoots(r, fmt.Sprintf("S5/edits(seeds<=%d)", k), k, grammar.Roots, A, false, 0, body)
		if r.Tier == "thorough" {
			// every edit kind on deeper seeds only for the roots that stay small there (the full product over all
			// roots at k+1 costs ~15 min per check and found nothing the quick tier had not found)
			bounds := rootBounds(k, 3000)
			for extra := 1; extra <= 2; extra++ {
				var roots []*grammar.Root
				for _, root := range grammar.Roots {
					if bounds[root.Name] >= k+extra {
						roots = append(roots, root)
					}
				}
				if len(roots) > 0 {
					editSpaceRoots(r, fmt.Sprintf("S5/edits(small roots, seeds=%d)", k+extra), k+extra, roots, A, false, k+extra, body)
				}
			}
		}
	}
	switch mode {
	case "both":
		editSpaceRoots(r, fmt.Sprintf("S5/light-edits(seeds=%d)", k+1), k+1, grammar.Roots, A, true, k+1, body)
	case "light":
		// (used by C06, whose oracle re-parses every node of every accepted input) light edits on seeds <=k,
		// and only the back-quote edit on the seeds with k+1 deviations
		editSpaceRoots(r, fmt.Sprintf("S5/light-edits(seeds<=%d)", k), k, grammar.Roots, A, true, 0, body)
		saved := lightKinds
		lightKinds = []int{8}
		editSpaceRoots(r, fmt.Sprintf("S5/back-quote-edits(seeds=%d)", k+1), k+1, grammar.Roots, A, true, k+1, body)
		lightKinds = saved
	}
}

// lightEditsAdaptive: every light single edit of every sentence with <=k deviations, and with <=k+1 / k+2
// deviations for the roots that stay below capPerRoot sentences at that bound (small DDL roots reach their
// optional clauses only there).
func lightEditsAdaptive(r *explore.Run, k int, capPerRoot int64, body func(c *explore.Ctx, e *Entry, s string)) {
	editSpaceRoots(r, fmt.Sprintf("S5/light-edits(seeds<=%d)", k), k, grammar.Roots, EditAlphabet, true, 0, body)
	if r.Replaying() {
		return
	}
	bounds := rootBounds(k, capPerRoot)
	for extra := 1; extra <= 2; extra++ {
		var roots []*grammar.Root
		for _, root := range grammar.Roots {
			if bounds[root.Name] >= k+extra {
				roots = append(roots, root)
			}
		}
		if len(roots) > 0 {
			editSpaceRoots(r, fmt.Sprintf("S5/light-edits(small roots, seeds=%d)", k+extra), k+extra, roots, EditAlphabet, true, k+extra, body)
		}
	}
}

// lightKinds are the edit kinds that do not multiply by the edit alphabet.
var lightKinds = []int{0, 1, 2, 5, 6, 8}

func editSpaceRoots(r *explore.Run, space string, k int, roots []*grammar.Root, A []string, light bool, minCost int, body func(c *explore.Ctx, e *Entry, s string)) {
	what := fmt.Sprintf("every single edit (delete, swap, block swap, truncate, back-quote, replace/insert each of %d edit tokens at every position, comment-glue, no-gap)", len(A))
	if light {
		what = "every light single edit (delete, swap, truncate, back-quote, comment-glue, no-gap)"
	}
	r.Explore(explore.Options{Space: space, MaxDev: k, SplitLen: 3,
		Bound: fmt.Sprintf("every sentence of %d roots of G with <=%d deviations x %s", len(roots), k, what)},
		func(c *explore.Ctx) {
			root := roots[c.ChooseFree(len(roots))]
			s := grammar.Derive(c, root)
			toks := make([]string, len(s.Src))
			for i, t := range s.Src {
				toks[i] = t.Text
			}
			n := len(toks)
			if n == 0 {
				return
			}
			kind := 0
			if c.Cost() < minCost {
				return // seeds with fewer deviations are covered by another S5 space of the same check
			}
			if light {
				kind = lightKinds[c.ChooseFree(len(lightKinds))]
			} else {
				kind = c.ChooseFree(9)
			}
			var text string
			join := func(t []string) string { return strings.Join(t, " ") }
			switch kind {
			case 0: // delete token i
				i := c.ChooseFree(n)
				text = join(append(append([]string{}, toks[:i]...), toks[i+1:]...))
			case 1: // swap i, i+1
				if n < 2 {
					return
				}
				i := c.ChooseFree(n - 1)
				t := append([]string{}, toks...)
				t[i], t[i+1] = t[i+1], t[i]
				text = join(t)
			case 2: // truncate after i tokens
				i := c.ChooseFree(n)
				text = join(toks[:i])
			case 3: // replace token i
				i := c.ChooseFree(n)
				t := append([]string{}, toks...)
				t[i] = A[c.ChooseFree(len(A))]
				text = join(t)
			case 4: // insert before position i
				i := c.ChooseFree(n + 1)
				t := append(append(append([]string{}, toks[:i]...), A[c.ChooseFree(len(A))]), toks[i:]...)
				text = join(t)
			case 7: // swap two adjacent blocks of 1..4 tokens (clause reordering)
				if n < 3 {
					return
				}
				i := c.ChooseFree(n - 1)
				combos := [][2]int{{1, 2}, {2, 1}, {2, 2}, {3, 3}, {4, 4}, {1, 3}, {3, 1}, {2, 4}, {4, 2}}
				cb := combos[c.ChooseFree(len(combos))]
				l1, l2 := cb[0], cb[1]
				if i+l1+l2 > n {
					return
				}
				t := append([]string{}, toks[:i]...)
				t = append(t, toks[i+l1:i+l1+l2]...)
				t = append(t, toks[i:i+l1]...)
				t = append(t, toks[i+l1+l2:]...)
				text = join(t)
			case 8: // write an identifier-shaped token as a quoted identifier
				i := c.ChooseFree(n)
				w := toks[i]
				if w == "" || !(w[0] == '_' || w[0] >= 'a' && w[0] <= 'z' || w[0] >= 'A' && w[0] <= 'Z') {
					return
				}
				t := append([]string{}, toks...)
				t[i] = "`" + w + "`"
				text = join(t)
			case 5, 6: // gap i becomes a comment / disappears
				if n < 2 {
					return
				}
				i := c.ChooseFree(n - 1)
				glue := "/*c*/"
				if kind == 6 {
					glue = ""
				}
				text = join(toks[:i+1]) + glue + join(toks[i+1:])
			}
			c.Input(text)
			c.Sample(s.Root + ": " + text)
			if se := specificEntry(s.Kind); se != "" {
				body(c, EntryByName(se), text)
			}
			if isStatementKind(s.Kind) {
				body(c, EntryByName("ParseStatement"), text)
				body(c, EntryByName("ParseStatements"), text)
			}
		})
}

// corpusEditSpace: token deletions, adjacent swaps and truncations of every corpus file
// (thorough: also replacement/insertion of every edit token).
func corpusEditSpace(r *explore.Run, body func(c *explore.Ctx, e *Entry, s string)) {
	files := loadCorpus()
	if len(files) == 0 {
		return
	}
	type tf struct {
		f    corpusFile
		toks []string
	}
	var fs []tf
	for _, f := range files {
		toks, err := oracle.ImplLex(f.Text)
		if err != nil || len(toks) == 0 || len(toks) > 600 {
			continue
		}
		var ts []string
		for _, t := range toks {
			ts = append(ts, t.Raw)
		}
		fs = append(fs, tf{f, ts})
	}
	A := EditAlphabet
	kinds := 3
	if r.Tier == "thorough" {
		kinds = 5
	}
	r.Explore(explore.Options{Space: "S5/corpus-edits", MaxDev: -1, SplitLen: 2,
		Bound: fmt.Sprintf("%d corpus files (<=600 tokens) x every token deletion, adjacent swap and truncation (thorough: + replace/insert each of %d edit tokens)", len(fs), len(A))},
		func(c *explore.Ctx) {
			f := fs[c.ChooseFree(len(fs))]
			toks, n := f.toks, len(f.toks)
			kind := c.ChooseFree(kinds)
			var t []string
			switch kind {
			case 0:
				i := c.ChooseFree(n)
				t = append(append([]string{}, toks[:i]...), toks[i+1:]...)
			case 1:
				if n < 2 {
					return
				}
				i := c.ChooseFree(n - 1)
				t = append([]string{}, toks...)
				t[i], t[i+1] = t[i+1], t[i]
			case 2:
				t = toks[:c.ChooseFree(n)]
			case 3:
				i := c.ChooseFree(n)
				t = append([]string{}, toks...)
				t[i] = A[c.ChooseFree(len(A))]
			case 4:
				i := c.ChooseFree(n + 1)
				t = append(append(append([]string{}, toks[:i]...), A[c.ChooseFree(len(A))]), toks[i:]...)
			}
			text := strings.Join(t, " ")
			c.Input(text)
			c.Sample(f.f.Name + ": " + text)
			body(c, EntryByName(f.f.Entry), text)
			if f.f.Entry != "ParseExpr" {
				body(c, EntryByName("ParseStatements"), text)
			}
		})
}
