package checks

import (
	"bytes"
	"fmt"
	"os"
	"os/exec"
	"reflect"
	"regexp"
	"runtime"
	"sort"
	"strings"
	"sync"

	"github.com/cloudspannerecosystem/memefish"
	"github.com/cloudspannerecosystem/memefish/ast"
	"github.com/cloudspannerecosystem/memefish/char"
	"github.com/cloudspannerecosystem/memefish/token"
	"github.com/cloudspannerecosystem/memefish/verifrt"

	"verif/explore"
	"verif/oracle"
	"verif/sched"
	"verif/spaces"
)

// ---------------------------------------------------------------------------
// deep dumps and digests

// deepDump renders a value completely (through pointers, slices, maps, unexported fields).
func deepDump(v reflect.Value, b *strings.Builder, depth int) {
	if depth > 200 {
		b.WriteString("<deep>")
		return
	}
	switch v.Kind() {
	case reflect.Invalid:
		b.WriteString("nil")
	case reflect.Pointer, reflect.Interface:
		if v.IsNil() {
			b.WriteString("nil")
			return
		}
		if v.Kind() == reflect.Interface {
			b.WriteString(v.Elem().Type().String())
		}
		b.WriteString("&")
		deepDump(v.Elem(), b, depth+1)
	case reflect.Struct:
		b.WriteString(v.Type().Name())
		b.WriteString("{")
		for i := 0; i < v.NumField(); i++ {
			b.WriteString(v.Type().Field(i).Name)
			b.WriteString(":")
			deepDump(v.Field(i), b, depth+1)
			b.WriteString(",")
		}
		b.WriteString("}")
	case reflect.Slice, reflect.Array:
		if v.Kind() == reflect.Slice && v.IsNil() {
			b.WriteString("nil[]")
			return
		}
		b.WriteString("[")
		for i := 0; i < v.Len(); i++ {
			deepDump(v.Index(i), b, depth+1)
			b.WriteString(",")
		}
		b.WriteString("]")
	case reflect.Map:
		keys := v.MapKeys()
		ks := make([]string, len(keys))
		m := map[string]reflect.Value{}
		for i, k := range keys {
			var kb strings.Builder
			deepDump(k, &kb, depth+1)
			ks[i] = kb.String()
			m[ks[i]] = v.MapIndex(k)
		}
		sort.Strings(ks)
		b.WriteString("map{")
		for _, k := range ks {
			b.WriteString(k)
			b.WriteString("=>")
			deepDump(m[k], b, depth+1)
			b.WriteString(",")
		}
		b.WriteString("}")
	case reflect.String:
		fmt.Fprintf(b, "%q", v.String())
	case reflect.Bool:
		fmt.Fprint(b, v.Bool())
	case reflect.Int, reflect.Int8, reflect.Int16, reflect.Int32, reflect.Int64:
		fmt.Fprint(b, v.Int())
	case reflect.Uint, reflect.Uint8, reflect.Uint16, reflect.Uint32, reflect.Uint64, reflect.Uintptr:
		fmt.Fprint(b, v.Uint())
	case reflect.Float32, reflect.Float64:
		fmt.Fprint(b, v.Float())
	case reflect.Func, reflect.Chan, reflect.UnsafePointer:
		fmt.Fprintf(b, "<%s>", v.Kind())
	default:
		fmt.Fprintf(b, "<%s>", v.Kind())
	}
}

func dumpOf(x any) string {
	var b strings.Builder
	deepDump(reflect.ValueOf(x), &b, 0)
	return b.String()
}

// reach collects the addresses of heap objects reachable from v (pointers, slice
// backing arrays, maps); strings are exempt (they may alias the input buffer).
func reach(v reflect.Value, set map[uintptr]bool, depth int) {
	if depth > 200 {
		return
	}
	switch v.Kind() {
	case reflect.Pointer:
		if v.IsNil() || set[v.Pointer()] {
			return
		}
		set[v.Pointer()] = true
		reach(v.Elem(), set, depth+1)
	case reflect.Interface:
		if !v.IsNil() {
			reach(v.Elem(), set, depth+1)
		}
	case reflect.Struct:
		for i := 0; i < v.NumField(); i++ {
			reach(v.Field(i), set, depth+1)
		}
	case reflect.Slice:
		if v.IsNil() || v.Len() == 0 {
			return
		}
		if v.Type().Elem().Kind() != reflect.Uint8 {
			set[v.Pointer()] = true
		}
		for i := 0; i < v.Len(); i++ {
			reach(v.Index(i), set, depth+1)
		}
	case reflect.Map:
		if v.IsNil() {
			return
		}
		set[v.Pointer()] = true
		it := v.MapRange()
		for it.Next() {
			reach(it.Value(), set, depth+1)
		}
	}
}

func allGlobals() map[string]any {
	out := map[string]any{}
	for p, m := range map[string]map[string]any{"memefish": memefish.VerifGlobals(), "ast": ast.VerifGlobals(), "token": token.VerifGlobals(), "char": char.VerifGlobals()} {
		for k, v := range m {
			out[p+"."+k] = v
		}
	}
	return out
}

func globalsDigest() string {
	g := allGlobals()
	var names []string
	for n := range g {
		names = append(names, n)
	}
	sort.Strings(names)
	var b strings.Builder
	for _, n := range names {
		b.WriteString(n)
		b.WriteString("=")
		deepDump(reflect.ValueOf(g[n]).Elem(), &b, 0)
		b.WriteString(";")
	}
	return b.String()
}

// ---------------------------------------------------------------------------
// the call alphabet (S8)

type pcall struct {
	name string
	run  func() (obs string, roots []ast.Node)
	full func() (obs string, roots []ast.Node, val any) // optional: also returns the complete returned value
	// optional: the same call on a caller-owned copy of the argument (input is the argument's text)
	input   string
	fullArg func(arg string) (obs string, roots []ast.Node, val any)
}

// obsParseFull also returns the complete value (nodes and error) of the call, so that histories can
// retain it and re-inspect it after later calls.
func obsParseFull(entry, input string) (string, []ast.Node, any) {
	res := EntryByName(entry).Call(input)
	o, roots := obsOf(res)
	return o, roots, []any{res.Roots, res.Err}
}

func obsParse(entry, input string) (string, []ast.Node) {
	return obsOf(EntryByName(entry).Call(input))
}

func obsOf(res ParseResult) (string, []ast.Node) {
	var b strings.Builder
	if res.Panic != nil {
		fmt.Fprintf(&b, "PANIC %v", res.Panic)
		return b.String(), nil
	}
	for _, r := range res.Roots {
		b.WriteString(dumpOf(r))
		if s, ok := safeSQL(r); ok {
			b.WriteString("\nSQL: " + s)
		}
		b.WriteString("\n")
	}
	if me, ok := res.Err.(memefish.MultiError); ok {
		b.WriteString("ERR: " + me.FullError())
	} else if res.Err != nil {
		b.WriteString("ERR: " + res.Err.Error())
	}
	return b.String(), res.Roots
}

func parseCall(entry, input string) pcall {
	return pcall{entry + "(" + fmt.Sprintf("%q", input) + ")", func() (string, []ast.Node) { return obsParse(entry, input) },
		func() (string, []ast.Node, any) { return obsParseFull(entry, input) },
		input, func(arg string) (string, []ast.Node, any) { return obsParseFull(entry, arg) }}
}

func splitCall(input string) pcall {
	f := func() (string, []ast.Node, any) {
		var ps []*memefish.RawStatement
		var err error
		pv, _ := explore.Try(func() { ps, err = memefish.SplitRawStatements("f.sql", input) })
		return dumpOf(ps) + fmt.Sprint(err, pv), nil, []any{ps, err}
	}
	return pcall{name: fmt.Sprintf("SplitRawStatements(%q)", input), run: func() (string, []ast.Node) { o, r, _ := f(); return o, r }, full: f}
}

// scribble overwrites everything a caller can overwrite in a returned value: every exported field,
// slice element and pointed-to value reachable from it (strings, numbers, booleans; pointers are
// followed, not replaced). A library whose results depend only on the arguments cannot notice.
func scribble(v reflect.Value, seen map[uintptr]bool, depth int) {
	if depth > 200 {
		return
	}
	switch v.Kind() {
	case reflect.Interface:
		if !v.IsNil() {
			scribble(v.Elem(), seen, depth+1)
		}
	case reflect.Pointer:
		if v.IsNil() || seen[v.Pointer()] {
			return
		}
		seen[v.Pointer()] = true
		scribble(v.Elem(), seen, depth+1)
	case reflect.Struct:
		for i := 0; i < v.NumField(); i++ {
			if v.Type().Field(i).IsExported() {
				scribble(v.Field(i), seen, depth+1)
			}
		}
	case reflect.Slice, reflect.Array:
		for i := 0; i < v.Len(); i++ {
			scribble(v.Index(i), seen, depth+1)
		}
	case reflect.String:
		if v.CanSet() {
			v.SetString("\x00scribbled")
		}
	case reflect.Int, reflect.Int8, reflect.Int16, reflect.Int32, reflect.Int64:
		if v.CanSet() {
			v.SetInt(-77)
		}
	case reflect.Uint, reflect.Uint8, reflect.Uint16, reflect.Uint32, reflect.Uint64:
		if v.CanSet() {
			v.SetUint(77)
		}
	case reflect.Bool:
		if v.CanSet() {
			v.SetBool(!v.Bool())
		}
	case reflect.Map:
		// results contain no maps; leave them alone
	}
}

var purityCalls = []pcall{
	parseCall("ParseStatement", "SELECT a FROM t"),
	parseCall("ParseQuery", "SELECT b, a FROM a AS t"),
	parseCall("ParseExpr", "CAST(1 AS ARRAY<STRUCT<a INT64>>)"),
	parseCall("ParseExpr", "- 1 + -2.5"),
	parseCall("ParseType", "STRUCT<a INT64"),
	parseCall("ParseDDL", "CREATE TABLE t (a INT64, b STRING(MAX)) PRIMARY KEY (a)"),
	parseCall("ParseDDL", "CREATE TABLE t (a FOO(1))"),
	parseCall("ParseDML", "INSERT t (a) VALUES (1)"),
	parseCall("ParseStatements", "SELECT 1; SELECT a"),
	parseCall("ParseExpr", "1 +"),
	parseCall("ParseExpr", "a.b.c[OFFSET(1)]"),
	// the same spellings in different lexical roles (keyword as field name vs. keyword; pseudo keyword vs. identifier)
	parseCall("ParseQuery", "SELECT o.order, o.desc, o.select, o.1 FROM o"),
	parseCall("ParseQuery", "select x from t order by x desc limit 1 offset 2"),
	parseCall("ParseQuery", "SELECT offset, value FROM `order` AS `select`"),
	// the same reserved word as a quoted identifier in two letter cases (memoised quoting must keep each spelling)
	parseCall("ParseExpr", "t.`Hash` + `Hash`"),
	parseCall("ParseExpr", "t.`HASH` + `hash`"),
	// two different inputs failing in the same lexer error path; an unsupported statement form
	parseCall("ParseExpr", "1 + /* never closed"),
	parseCall("ParseQuery", "SELECT 1\n  /* also never closed"),
	parseCall("ParseDDL", "ALTER VIEW v"),
	parseCall("ParseDDL", "CREATE FUNCTION f"),
	// every escape kind in every literal kind (scratch buffers of the decoder)
	parseCall("ParseExpr", `'\u00e9\U0001F600\x41\101\n' || "\u0041\u00e8"`),
	parseCall("ParseQuery", "SELECT b'\\xff\\000\\n', '\\u4e16\\u754c' FROM `a\\u00e9\\U0001F601b`"),
	// escape-free literals (candidates for sharing memory with the argument); CRLF vs LF inputs with errors on later lines
	parseCall("ParseExpr", "b\"abc\" || 'def' || `ghi`"),
	parseCall("ParseQuery", "SELECT 1,\n  2,\n  3 +"),
	parseCall("ParseQuery", "SELECT 1,\r\n  2,\r\n  3 +"),
	parseCall("ParseQuery", "SELECT 1,\r  2 +"),
	splitCall("a; b"),
	splitCall(""),
	splitCall(" /*c*/ "),
	// a call that fails right after "ident ." followed by one whose first token would lex differently in that state
	splitCall("SELECT t.'abc"),
	splitCall("1a; SELECT 2"),
	parseCall("ParseExpr", "t.'abc"),
	parseCall("ParseExpr", "1a"),
	{"Lexer(\"select `select` 'x' 0x1\")", func() (string, []ast.Node) {
		toks, _, err, pv := fullLex("select `select` 'x' 0x1")
		return dumpOf(toks) + fmt.Sprint(err, pv), nil
	}, func() (string, []ast.Node, any) {
		toks, _, err, pv := fullLex("select `select` 'x' 0x1")
		return dumpOf(toks) + fmt.Sprint(err, pv), nil, []any{toks, err}
	}, "", nil},
	{"QuoteSQLIdent/String", func() (string, []ast.Node) {
		return token.QuoteSQLIdent("select") + token.QuoteSQLString("a'b") + token.QuoteSQLBytes([]byte("\x00")), nil
	}, nil, "", nil},
}

// ops on an AST returned earlier in the same history
var purityOps = []struct {
	name string
	run  func(n ast.Node) string
}{
	{"SQL", func(n ast.Node) string { s, _ := safeSQL(n); return s }},
	{"PosEnd", func(n ast.Node) string {
		var b strings.Builder
		for _, v := range oracle.Preorder(n) {
			p, e, _ := safePosEnd(v.Node)
			fmt.Fprintf(&b, "%d-%d,", p, e)
		}
		return b.String()
	}},
	{"Walk", func(n ast.Node) string {
		k := 0
		explore.Try(func() { ast.Inspect(n, func(ast.Node) bool { k++; return true }) })
		return fmt.Sprint(k)
	}},
}

var (
	initialObs  []string
	initialOnce sync.Once
)

// computeInitial obtains every call's observation in the INITIAL state: each call is executed
// in a fresh process of this same binary (so no earlier call of the alphabet can have influenced it).
func computeInitial() {
	initialOnce.Do(func() {
		self, err := os.Executable()
		if err != nil {
			fmt.Fprintln(os.Stderr, "INTERNAL: cannot find own executable:", err)
			os.Exit(2)
		}
		initialObs = make([]string, len(purityCalls))
		var wg sync.WaitGroup
		for k := range purityCalls {
			k := k
			wg.Add(1)
			go func() {
				defer wg.Done()
				out, err := exec.Command(self, "C18obs", fmt.Sprint(k)).Output()
				if err != nil {
					fmt.Fprintf(os.Stderr, "INTERNAL: fresh-process observation of call %d failed: %v\n", k, err)
					os.Exit(2)
				}
				initialObs[k] = string(out)
			}()
		}
		wg.Wait()
	})
}

// C18obs prints the observation of one call of the alphabet (used by computeInitial in a fresh process).
func C18obs(k int) {
	o, _ := purityCalls[k].run()
	os.Stdout.WriteString(o)
}

// C18: purity.
func C18(r *explore.Run) {
	r.Level = "model_checking"
	r.Rule = "(1) histories: every sequence of at most N calls from a " + fmt.Sprint(len(purityCalls)) + "-call alphabet chosen to collide (same input twice, shared identifier names, '>>' splitting, sign folding, error paths reading the type-name tables, CREATE TABLE printing, every escape kind, splitter calls ending in unusual lexer states) plus SQL/Pos+End/Walk on ASTs returned earlier in the same history; in every state the call's observation (full tree dump with positions, SQL(), error texts) equals its observation in the initial state, earlier ASTs are unchanged, ASTs share no heap object with each other or with package-level state, and the digest of all package-level variables is unchanged; at the end of every history the harness overwrites every exported field and element of every value the calls returned and all calls must still answer as in the initial state; " +
		"(2) schedules: 2 and 3 goroutines with 1-2 calls each under a cooperative scheduler whose scheduling points are inserted automatically before every statement touching package-level state: all interleavings that switch only at accesses to variables in the write/escape set W (fixpoint), and independently all interleavings over all points with <=2 preemptions; (3) write-set monitor over the S3 expression/DDL token strings; (4) corroboration: the same bodies free-running under the race detector. " +
		"states = distinct digests of package-level state; transitions = calls executed; traces = histories/schedules executed against the implementation"
	r.Assume = []string{"scheduling granularity is one statement touching package-level state; finer-grained or aliased accesses are left to the race-detector pass",
		"Go memory-model weak behaviours are not modelled (irrelevant while the write set is empty)"}
	computeInitial()
	globalsDigestInitial = globalsDigest()
	states := map[string]bool{globalsDigestInitial: true}
	var transitions, traces int64
	globalPtrs := map[uintptr]bool{}
	for _, g := range allGlobals() {
		reach(reflect.ValueOf(g), globalPtrs, 0)
	}

	// (1) histories
	n := 3
	if r.Tier == "thorough" {
		n = 4
	}
	nc, no := len(purityCalls), len(purityOps)
	var statesMu sync.Mutex
	r.Explore(explore.Options{Space: "S8/histories", MaxDev: -1, Workers: 1, SplitLen: 1,
		Bound: fmt.Sprintf("all histories of <=%d steps over %d calls + %d operations on each earlier AST (no state merging)", n, nc, no)}, func(c *explore.Ctx) {
		type kept struct {
			root   ast.Node
			digest string
			ptrs   map[uintptr]bool
			from   string
		}
		var asts []kept
		var results []keptResult
		var args []keptArg
		usedCall := map[int]bool{}
		var hist []string
		for step := 0; step < n; step++ {
			nalt := 1 + nc + no*len(asts)
			k := c.ChooseFree(nalt)
			if k == 0 {
				break
			}
			k--
			if k < nc {
				call := purityCalls[k]
				usedCall[k] = true
				hist = append(hist, call.name)
				c.Input(strings.Join(hist, " ; "))
				var obs string
				var roots []ast.Node
				if call.fullArg != nil {
					// the argument is a string the caller owns (a fresh heap copy): it must still read the same
					// after the caller has overwritten everything the call returned
					arg := string(append([]byte(nil), call.input...))
					var val any
					obs, roots, val = call.fullArg(arg)
					results = append(results, keptResult{val, dumpOf(val), call.name})
					args = append(args, keptArg{arg, call.input, call.name})
				} else if call.full != nil {
					var val any
					obs, roots, val = call.full()
					results = append(results, keptResult{val, dumpOf(val), call.name})
				} else {
					obs, roots = call.run()
				}
				transitions++
				if obs != initialObs[k] {
					c.Violation("C18/history/observation-differs/"+call.name, strings.Join(hist, " ; "), fmt.Sprintf("result of %s after this history differs from its result in the initial state:\n%s\nvs\n%s", call.name, firstDiff(obs, initialObs[k]), ""))
				}
				for _, root := range roots {
					if oracle.IsNilNode(root) {
						continue
					}
					ptrs := map[uintptr]bool{}
					reach(reflect.ValueOf(root), ptrs, 0)
					for p := range ptrs {
						if globalPtrs[p] {
							c.Violation("C18/history/ast-shares-package-state/"+call.name, strings.Join(hist, " ; "), "the returned AST points into package-level state")
							break
						}
					}
					for _, a := range asts {
						shared := false
						for p := range ptrs {
							if a.ptrs[p] {
								shared = true
								break
							}
						}
						if shared {
							c.Violation("C18/history/asts-share-memory", strings.Join(hist, " ; "), fmt.Sprintf("AST of %s shares a heap object with the AST returned earlier by %s", call.name, a.from))
						}
					}
					asts = append(asts, kept{root, dumpOf(root), ptrs, call.name})
				}
			} else {
				k -= nc
				op := purityOps[k%no]
				a := asts[k/no]
				hist = append(hist, fmt.Sprintf("%s(ast#%d)", op.name, k/no))
				c.Input(strings.Join(hist, " ; "))
				o1 := op.run(a.root)
				o2 := op.run(a.root)
				transitions++
				if o1 != o2 {
					c.Violation("C18/history/method-not-deterministic/"+op.name, strings.Join(hist, " ; "), fmt.Sprintf("%s gives %q then %q on the same AST", op.name, o1, o2))
				}
			}
			// invariants in the state reached
			for i, kr := range results {
				if d := dumpOf(kr.val); d != kr.digest {
					c.Violation("C18/history/earlier-result-changed/"+kr.from, strings.Join(hist, " ; "), fmt.Sprintf("the value (tree and error list) returned earlier by call #%d %s changed after a later call: %s", i, kr.from, firstDiff(d, kr.digest)))
				}
			}
			for i, a := range asts {
				if d := dumpOf(a.root); d != a.digest {
					c.Violation("C18/history/earlier-ast-changed", strings.Join(hist, " ; "), fmt.Sprintf("AST #%d (from %s) changed: %s", i, a.from, firstDiff(d, a.digest)))
				}
			}
			// A change of package-level state is not a violation by itself (a lazily built table or a
			// pure cache keeps every result the same); it opens a new state of the search: all calls are
			// observed again from it, and the call that changed it is repeated up to 4096 times
			// (doubling) with all calls re-observed, which exposes accumulating state (leaked counters).
			gd := globalsDigest()
			statesMu.Lock()
			isNew := !states[gd]
			states[gd] = true
			statesMu.Unlock()
			if isNew {
				c.Count("package_state_changes", 1)
				reobserve := func(after string) {
					for j, call := range purityCalls {
						o, _ := call.run()
						transitions++
						if o != initialObs[j] {
							c.Violation("C18/history/observation-differs/"+call.name, strings.Join(hist, " ; ")+after+" ; "+call.name,
								fmt.Sprintf("after a call that changed package-level state (%s), %s returns a different result than in the initial state: %s", firstDiff(gd, globalsDigestInitial), call.name, firstDiff(o, initialObs[j])))
						}
					}
				}
				reobserve("")
				if k < nc {
					total := 1
					for rep := 1; total < 4096; rep *= 2 {
						for q := 0; q < rep; q++ {
							purityCalls[k].run()
							transitions++
						}
						total += rep
						reobserve(fmt.Sprintf(" ; (%s x%d)", purityCalls[k].name, total))
					}
					statesMu.Lock()
					states[globalsDigest()] = true
					statesMu.Unlock()
				}
			}
		}
		// the caller overwrites everything it was given; every call must still answer as in the initial state
		if len(results) > 0 {
			seen := map[uintptr]bool{}
			for _, kr := range results {
				scribble(reflect.ValueOf(kr.val), seen, 0)
			}
			for _, ka := range args {
				if ka.arg != ka.want {
					c.Violation("C18/history/result-aliases-argument/"+ka.from, strings.Join(hist, " ; ")+" ; <caller overwrites the returned values>",
						fmt.Sprintf("after the caller overwrote the values returned by %s, the argument string it passed reads %q instead of %q: the result shares memory with the argument", ka.from, ka.arg, ka.want))
				}
			}
			for j, call := range purityCalls {
				// histories longer than 3 calls re-observe only their own calls (all calls for the shorter ones)
				if len(hist) > 3 && !usedCall[j] {
					continue
				}
				o, _ := call.run()
				transitions++
				if o != initialObs[j] {
					c.Violation("C18/history/result-shares-state-with-later-call/"+call.name, strings.Join(hist, " ; ")+" ; <caller overwrites the returned values> ; "+call.name,
						fmt.Sprintf("after the caller overwrote the values returned by the calls of this history, %s returns a different result than in the initial state: %s", call.name, firstDiff(o, initialObs[j])))
				}
			}
		}
		traces++
		c.Sample(strings.Join(hist, " ; "))
		c.OutcomeStr(strings.Join(hist, ";"))
		if len(hist) >= 2 {
			c.Nontrivial(explore.Hash(strings.Join(hist, ";")))
		}
	})

	// (1b) repetition: every S3 token string (<=3 tokens) through its entry points three times in a row;
	// the three observations (tree dump with positions, SQL(), error texts) must be identical
	for _, a := range spaces.S3 {
		toks, an := a.Toks, a.Name
		r.Explore(explore.Options{Space: "S3-repeat/" + an, MaxDev: -1,
			Bound: fmt.Sprintf("all strings of <=3 of %d tokens x 4 entry points x 3 repetitions", len(toks))}, func(c *explore.Ctx) {
			seq := spaces.Seq(c, len(toks), 3)
			parts := make([]string, len(seq))
			for i, x := range seq {
				parts[i] = toks[x]
			}
			s := strings.Join(parts, " ")
			c.Input(s)
			for _, e := range entriesFor(an) {
				o1, _ := obsParse(e.Name, s)
				for rep := 0; rep < 2; rep++ {
					o2, _ := obsParse(e.Name, s)
					transitions++
					if o1 != o2 {
						c.Violation("C18/repeat/result-differs/"+e.Name, e.Name+": "+s, fmt.Sprintf("the same call gives different results when repeated: %s", firstDiff(o1, o2)))
						break
					}
				}
			}
			traces++
			c.OutcomeStr(s)
			c.Nontrivial(explore.Hash(s))
		})
	}

	// (2) schedules
	schedules(r, &transitions, &traces)

	// (3) write-set monitor
	writeSetMonitor(r)

	// (4) race detector
	racePass(r)

	r.States = int64(len(states))
	r.Transitions = transitions
	r.Traces = traces
}

var globalsDigestInitial = ""

type keptArg struct {
	arg, want, from string
}

type keptResult struct {
	val    any
	digest string
	from   string
}

func firstDiff(a, b string) string {
	i := 0
	for i < len(a) && i < len(b) && a[i] == b[i] {
		i++
	}
	lo := i - 40
	if lo < 0 {
		lo = 0
	}
	cut := func(s string) string {
		hi := i + 60
		if hi > len(s) {
			hi = len(s)
		}
		if lo > len(s) {
			return ""
		}
		return s[lo:hi]
	}
	return fmt.Sprintf("at byte %d: %q vs %q", i, cut(a), cut(b))
}

// schedules explores interleavings of 2 and 3 threads.
func schedules(r *explore.Run, transitions, traces *int64) {
	computeInitial()
	// scenario alphabet: indices into purityCalls that touch package-level state or collide
	alpha := []int{0, 1, 2, 4, 5, 6, 9, 18, 19}
	type scenario struct{ threads [][]int }
	var scs []scenario
	for _, a := range alpha {
		for _, b := range alpha {
			scs = append(scs, scenario{[][]int{{a}, {b}}})
		}
	}
	// two calls per thread and three threads on the most state-touching calls
	hot := []int{0, 5, 4, 6}
	for _, a := range hot {
		for _, b := range hot {
			scs = append(scs, scenario{[][]int{{a, b}, {b, a}}})
			for _, c3 := range hot {
				scs = append(scs, scenario{[][]int{{a}, {b}, {c3}}})
			}
		}
	}
	if r.Tier == "thorough" {
		for _, a := range alpha {
			for _, b := range alpha {
				scs = append(scs, scenario{[][]int{{a, b}, {b, a}}})
				for _, c3 := range alpha {
					scs = append(scs, scenario{[][]int{{a}, {b}, {c3}}})
				}
			}
		}
	}
	W := map[string]bool{}
	// every write/escape access observed joins W (fixpoint: restart when W grows)
	prevProcs := runtime.GOMAXPROCS(1) // hand-offs between cooperative threads are faster on one P
	defer runtime.GOMAXPROCS(prevProcs)
	allScs := scs
	run := func(space string, costed bool, maxDev int, point func(name string, kind int) bool) bool {
		grew := false
		var mu sync.Mutex
		points := int64(0)
		r.Explore(explore.Options{Space: space, MaxDev: maxDev, Workers: 1, SplitLen: 1,
			Bound: fmt.Sprintf("%d scenarios (2 and 3 goroutines, 1-2 calls each)", len(scs))}, func(c *explore.Ctx) {
			sc := scs[c.ChooseFree(len(scs))]
			desc := fmt.Sprint(sc.threads)
			c.Input(desc)
			results := make([][]string, len(sc.threads))
			var bodies []func(yield func(string))
			for ti, calls := range sc.threads {
				ti, calls := ti, calls
				bodies = append(bodies, func(yield func(string)) {
					for _, ci := range calls {
						o, _ := purityCalls[ci].run()
						results[ti] = append(results[ti], o)
						*transitions++
					}
				})
			}
			log := sched.Run(c, bodies, func(name string, kind int) bool {
				if kind != verifrt.Read {
					mu.Lock()
					if !W[name] {
						W[name] = true
						grew = true
					}
					mu.Unlock()
				}
				points++
				return point(name, kind)
			}, costed)
			*traces++
			var sb strings.Builder
			for _, e := range log {
				fmt.Fprintf(&sb, "%d:%s ", e.Thread, e.What)
			}
			for ti, calls := range sc.threads {
				for j, ci := range calls {
					if j < len(results[ti]) && results[ti][j] != initialObs[ci] {
						c.Violation("C18/schedule/observation-differs/"+purityCalls[ci].name, desc+" schedule "+sb.String(),
							fmt.Sprintf("under this interleaving %s (thread %d) returns a different result than sequentially: %s", purityCalls[ci].name, ti, firstDiff(results[ti][j], initialObs[ci])))
					}
				}
			}
			c.Sample(desc + " " + sb.String())
			c.OutcomeStr(sb.String())
			c.Nontrivial(explore.Hash(desc + sb.String()))
		})
		r.Extra("hook_points_hit:"+space, points)
		return grew
	}
	// (a) all interleavings switching only at W accesses; restart while W grows
	for iter := 0; iter < 5; iter++ {
		if !run(fmt.Sprintf("S9/W-interleavings#%d", iter), false, -1, func(name string, kind int) bool { return W[name] }) {
			break
		}
	}
	// (b) all interleavings over all hook points, preemption-bounded
	npairs := len(alpha) * len(alpha)
	pb, rb := 2, 1
	if r.Tier == "thorough" {
		pb, rb = 3, 2
	}
	scs = allScs[:npairs]
	run(fmt.Sprintf("S9/preemptions<=%d(2 threads x 1 call)", pb), true, pb, func(string, int) bool { return true })
	scs = allScs[npairs:]
	run(fmt.Sprintf("S9/preemptions<=%d(2x2 calls, 3 threads)", rb), true, rb, func(string, int) bool { return true })
	scs = allScs
	var ws []string
	for n := range W {
		ws = append(ws, n)
	}
	sort.Strings(ws)
	r.Extra("write_escape_set_W", ws)
}

// writeSetMonitor: no write to package-level state outside init during a broad enumeration.
func writeSetMonitor(r *explore.Run) {
	verifrt.Monitor(true)
	defer verifrt.Monitor(false)
	for _, a := range spaces.S3 {
		if a.Name != "expr" && a.Name != "ddl" && a.Name != "type" {
			continue
		}
		toks := a.Toks
		r.Explore(explore.Options{Space: "S3-monitor/" + a.Name, MaxDev: -1,
			Bound: fmt.Sprintf("all strings of <=3 of %d tokens through 4 entry points with the write-set monitor on", len(toks))}, func(c *explore.Ctx) {
			seq := spaces.Seq(c, len(toks), 3)
			parts := make([]string, len(seq))
			for i, x := range seq {
				parts[i] = toks[x]
			}
			s := strings.Join(parts, " ")
			c.Input(s)
			for _, e := range entriesFor(a.Name) {
				res := e.Call(s)
				if res.Panic == nil {
					for _, root := range res.Roots {
						safeSQL(root)
					}
				}
			}
			c.OutcomeStr(s)
			c.Nontrivial(explore.Hash(s))
		})
	}
	if r.Replaying() {
		return
	}
	nr, reads := verifrt.NonReadAccesses()
	r.Extra("monitor_read_accesses", reads)
	r.Extra("monitor_non_read_accesses", nr)
	if reads == 0 {
		fmt.Fprintln(os.Stderr, "INTERNAL: instrumentation inactive (no access recorded)")
		os.Exit(2)
	}
	// A write outside init is not a violation by itself (a lazily built table keeps every result the same):
	// it is reported in the evidence, it makes the variable a member of W (so the schedule exploration
	// switches at every access to it), and a racy write is caught by the race-detector pass. What it
	// does mean is that the argument "all interleavings are equivalent" no longer extends beyond the
	// explored scenarios, which the evidence then says.
	writes := 0
	for k := range nr {
		if strings.HasPrefix(k, "write ") {
			writes++
		}
	}
	r.Extra("all_interleavings_equivalent_beyond_scenarios", writes == 0)
}

var raceFrame = regexp.MustCompile(`(?m)^\s+(github\.com/cloudspannerecosystem/memefish[^\s(]*)\(`)

// racePass runs the free-running race-detector binary.
func racePass(r *explore.Run) {
	if r.Replaying() {
		return
	}
	bin := os.Getenv("VERIF_RACE_BIN")
	if bin == "" {
		r.Extra("race_pass", "skipped (no race binary)")
		return
	}
	cmd := exec.Command(bin, "C18race", r.Tier)
	cmd.Env = append(os.Environ(), "GORACE=halt_on_error=1 exitcode=66")
	var out bytes.Buffer
	cmd.Stdout = &out
	cmd.Stderr = &out
	err := cmd.Run()
	s := out.String()
	if strings.Contains(s, "DATA RACE") {
		fr := "?"
		if m := raceFrame.FindStringSubmatch(s); m != nil {
			fr = strings.TrimPrefix(m[1], "github.com/cloudspannerecosystem/memefish")
		}
		r.AddViolation("C18/data-race/"+fr, "free-running goroutines", firstLinesOf(s, 30))
		return
	}
	if strings.Contains(s, "RACE-PASS-MISMATCH") {
		r.AddViolation("C18/concurrent-result-differs", "free-running goroutines", firstLinesOf(s, 10))
		return
	}
	if err != nil {
		fmt.Fprintf(os.Stderr, "INTERNAL: race pass failed: %v\n%s\n", err, firstLinesOf(s, 20))
		os.Exit(2)
	}
	r.Extra("race_pass", strings.TrimSpace(s))
}

func firstLinesOf(s string, n int) string {
	l := strings.Split(s, "\n")
	if len(l) > n {
		l = l[:n]
	}
	return strings.Join(l, "\n")
}

// C18race is the body of the race-detector binary: G goroutines x I iterations of the call alphabet.
func C18race(r *explore.Run) {
	computeInitial()
	G, I := 16, 60
	if r.Tier == "thorough" {
		I = 400
	}
	var wg sync.WaitGroup
	var mu sync.Mutex
	bad := ""
	// ASTs shared by all goroutines: SQL(), Pos()/End() and Walk on the same tree must be read-only
	var shared []ast.Node
	var sharedObs [][]string
	for _, in := range []string{"SELECT a, `b c` FROM t WHERE x = 1 AND y IN (1, 2)", "CREATE TABLE t (a INT64, b STRING(MAX)) PRIMARY KEY (a)", "INSERT INTO t (a) VALUES (1)"} {
		res := EntryByName("ParseStatement").Call(in)
		if res.Panic == nil && len(res.Roots) == 1 {
			shared = append(shared, res.Roots[0])
			var o []string
			for _, op := range purityOps {
				o = append(o, op.run(res.Roots[0]))
			}
			sharedObs = append(sharedObs, o)
		}
	}
	for g := 0; g < G; g++ {
		g := g
		wg.Add(1)
		go func() {
			defer wg.Done()
			for i := 0; i < I; i++ {
				k := (g + i) % len(purityCalls)
				o, _ := purityCalls[k].run()
				if o != initialObs[k] {
					mu.Lock()
					bad = purityCalls[k].name
					mu.Unlock()
				}
				for si, n := range shared {
					op := purityOps[(g+i)%len(purityOps)]
					if op.run(n) != sharedObs[si][(g+i)%len(purityOps)] {
						mu.Lock()
						bad = op.name + " on a shared AST"
						mu.Unlock()
					}
				}
			}
		}()
	}
	wg.Wait()
	if bad != "" {
		fmt.Printf("RACE-PASS-MISMATCH %s\n", bad)
		os.Exit(1)
	}
	fmt.Printf("race pass: %d goroutines x %d iterations over %d calls + SQL/Pos/End/Walk on %d shared ASTs, no race reported, all results equal the sequential ones\n", G, I, len(purityCalls), len(shared))
	os.Exit(0)
}

func init() {
	Registry["C18"] = C18
	Registry["C18race"] = C18race
}
