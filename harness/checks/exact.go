package checks

import (
	"fmt"
	"regexp"
	"strings"

	"github.com/cloudspannerecosystem/memefish/ast"

	"verif/explore"
	"verif/grammar"
	"verif/lexref"
	"verif/oracle"
)

// ---------------------------------------------------------------------------
// C06

// standalone returns the entry point that parses node n on its own, and a function
// extracting the comparable node from that parse; ok=false when clause (a) does not apply.
func standalone(n ast.Node) (e *Entry, pick func(ast.Node) ast.Node, ok bool) {
	id := func(x ast.Node) ast.Node { return x }
	switch v := n.(type) {
	case ast.Statement:
		return EntryByName("ParseStatement"), id, true
	case ast.QueryExpr:
		return EntryByName("ParseQuery"), func(x ast.Node) ast.Node {
			if qs, ok := x.(*ast.QueryStatement); ok && qs.Hint == nil {
				return qs.Query
			}
			return x
		}, true
	case ast.Type:
		if nt, isNamed := v.(*ast.NamedType); isNamed && len(nt.Path) == 1 {
			for _, st := range []string{"BOOL", "INT64", "FLOAT32", "FLOAT64", "DATE", "TIMESTAMP", "NUMERIC", "STRING", "BYTES", "JSON", "TOKENLIST"} {
				if strings.EqualFold(nt.Path[0].Name, st) {
					return nil, nil, false // NamedType spelled like a simple type
				}
			}
		}
		return EntryByName("ParseType"), id, true
	case ast.Expr:
		if p, isPath := v.(*ast.Path); isPath && len(p.Idents) == 1 {
			return nil, nil, false // a single-identifier Path parses stand-alone as Ident
		}
		return EntryByName("ParseExpr"), id, true
	}
	return nil, nil, false
}

var regexpIndex = regexp.MustCompile(`\[\d+\]`)

// checkExactPositions is C06's oracle on one accepted input whose round trip holds.
func checkExactPositions(e *Entry, x string, res ParseResult) (viol map[string]string, nodes int) {
	viol = map[string]string{}
	root := res.Roots[0]
	vs := oracle.Preorder(root)
	type fail struct{ sig, detail string }
	fails := make([][]fail, len(vs))
	inToks, _ := oracle.ImplLex(x)
	tokAt := map[int]int{}
	for k, t := range inToks {
		tokAt[t.Pos] = k
	}
	for i, v := range vs {
		n := v.Node
		p, en, ok := safePosEnd(n)
		if !ok {
			continue // C04
		}
		if p < 0 || en < p || en > len(x) {
			// no text is delimited at all (C05 reports the same node under its own clauses)
			fails[i] = append(fails[i], fail{"C06/invalid-range/" + oracle.TypeName(n), fmt.Sprintf("%s at %s: Pos()=%d End()=%d delimit no substring of the %d-byte input", oracle.TypeName(n), v.Path, p, en, len(x))})
			continue
		}
		nodes++
		tn := oracle.TypeName(n)
		// an Ident that directly follows "." may be a digit run or keyword that only lexes as identifier there
		afterDot := false
		if id, isIdent := n.(*ast.Ident); isIdent {
			if k, ok := tokAt[p]; ok && k > 0 {
				afterDot = inToks[k-1].Kind == "."
			}
			// an identifier spelled like an expression-introducing pseudo keyword (a type or alias named
			// SAFE_CAST / REPLACE_FIELDS) legitimately parses as something else on its own: same family as the
			// exemptions the property names
			if u := strings.ToUpper(id.Name); (u == "SAFE_CAST" || u == "REPLACE_FIELDS") && x[p] != '`' {
				afterDot = true
			}
		}
		// (a)
		if se, pick, ok := standalone(n); ok && !afterDot {
			sub := x[p:en]
			r2 := se.Call(sub)
			switch {
			case r2.Panic != nil:
			case r2.Err != nil:
				fails[i] = append(fails[i], fail{"C06/a/substring-rejected/" + tn, fmt.Sprintf("%s at %s: input[%d:%d] = %q is rejected by %s: %v", tn, v.Path, p, en, sub, se.Name, r2.Err)})
			default:
				got := pick(r2.Roots[0])
				if d := oracle.EqualUpToPos(n, got); d != "" {
					fails[i] = append(fails[i], fail{"C06/a/substring-differs/" + tn, fmt.Sprintf("%s at %s: input[%d:%d] = %q parses to a different node: %s", tn, v.Path, p, en, sub, d)})
				}
			}
		}
		// (b)
		sql, ok := safeSQL(n)
		if !ok {
			continue
		}
		y := x[:p] + " " + sql + " " + x[en:]
		r3 := e.Call(y)
		// an identifier's failure is named together with the place it stands in (its last field names)
		if tn == "Ident" {
			f := strings.FieldsFunc(regexpIndex.ReplaceAllString(v.Path, ""), func(r rune) bool { return r == '.' })
			if len(f) > 3 {
				f = f[len(f)-3:]
			}
			tn = "Ident/at=" + strings.Join(f, ".")
		}
		switch {
		case r3.Panic != nil:
		case r3.Err != nil:
			fails[i] = append(fails[i], fail{"C06/b/replacement-rejected/" + tn, fmt.Sprintf("%s at %s [%d,%d): replacing its range by its SQL() gives %q, rejected: %v", tn, v.Path, p, en, y, r3.Err)})
		default:
			if d := oracle.EqualUpToPos(root, r3.Roots[0]); d != "" {
				fails[i] = append(fails[i], fail{"C06/b/replacement-differs/" + tn, fmt.Sprintf("%s at %s [%d,%d): replacing its range by its SQL() gives %q, which parses differently: %s", tn, v.Path, p, en, y, d)})
			}
		}
	}
	// report the innermost failing nodes only
	hasBadDesc := make([]bool, len(vs))
	for i := len(vs) - 1; i >= 0; i-- {
		if (len(fails[i]) > 0 || hasBadDesc[i]) && vs[i].Parent >= 0 {
			hasBadDesc[vs[i].Parent] = true
		}
	}
	for i := range vs {
		if !hasBadDesc[i] {
			for _, f := range fails[i] {
				viol[f.sig] = f.detail
			}
		}
	}
	return
}

// C06: positions are exact.
func C06(r *explore.Run) {
	r.Rule = "every node of every sentence of G within the deviation bound (and of every corpus file) that is accepted and whose own round trip (C01) holds: (a) expression/type/query/statement nodes re-parse stand-alone from input[Pos:End] to an equal node (R4); (b) replacing input[Pos:End] by ' '+SQL()+' ' parses to an equal tree; only the innermost failing node is reported; " +
		"non-trivial = accepted sentence with >=3 nodes; distinct by token text"
	r.Assume = []string{"exemptions of clause (a) are exactly the three the property names (single-identifier Path, Ident after '.', NamedType spelled like a simple type)"}
	body := func(c *explore.Ctx, e *Entry, text string) {
		res := e.Call(text)
		if res.Panic != nil || res.Err != nil || !e.Single {
			return
		}
		if len(checkRoundTrip(e, text, res)) > 0 {
			c.Count("skipped_roundtrip_fails(C01)", 1)
			return
		}
		v, n := checkExactPositions(e, text, res)
		for sig, d := range v {
			c.Violation(sig, e.Name+": "+text, d)
		}
		c.Count("nodes_checked", int64(n))
		c.OutcomeStr(text)
		if n >= 3 {
			c.Nontrivial(explore.Hash(text))
		}
	}
	// sentences of G (default spelling and, for few deviations, uniform re-spellings incl. CRLF), the corpus,
	// and every accepted single-edit neighbour (inputs outside G that are nevertheless accepted)
	grammarTreeSpace(r, 2, body)
	corpusSpace(r, body)
	editSpaceMode(r, 1, "light", body)
}

// ---------------------------------------------------------------------------
// C16

var trivia = []string{" ", "\n", "\t ", "/*c*/", " /* c */ ", "--c\n", "#c\n", "//c\n", "", "\f", "\v", "\r\n", "\u00a0", "\u3000\u0085", "/***/", "/* x **/", "/*/ */"}

// endTrivia are trivia forms that are complete only at the very end of the input.
var endTrivia = []string{"#", "--", " //", "-- c", "/**/", " #c"}

func caseVariant(s string, k int) string {
	switch k {
	case 1:
		return strings.ToLower(s)
	case 2:
		b := []byte(strings.ToLower(s))
		for i := 0; i < len(b); i += 2 {
			if b[i] >= 'a' && b[i] <= 'z' {
				b[i] -= 32
			}
		}
		return string(b)
	}
	return s
}

// sigTokens is R1's significant-token sequence of a text (kinds and values), "" if it does not lex.
func sigTokens(text string) (string, bool) {
	res := lexref.Lex(text)
	if !res.OK {
		return "", false
	}
	var b strings.Builder
	for _, t := range res.Toks {
		fmt.Fprintf(&b, "%s\x00%s\x00%d\x01", t.Kind, strings.ToUpper(valueForAdmission(t)), t.Base)
	}
	return b.String(), true
}

// valueForAdmission: identifiers compare case-insensitively for admission only (a pseudo
// keyword may be re-cased); the AST comparison afterwards is exact.
func valueForAdmission(t lexref.Tok) string {
	if t.Kind == "<ident>" {
		return t.Value
	}
	if t.Kind == "<string>" || t.Kind == "<bytes>" || t.Kind == "<param>" {
		return "=" + t.Value
	}
	return ""
}

func splitTypeClosers(sig string) string {
	return strings.ReplaceAll(sig, ">>\x00\x000\x01", ">\x00\x000\x01>\x00\x000\x01")
}

// C16: whitespace, comments and keyword case never change the AST.
func C16(r *explore.Run) {
	r.Rule = "every sentence of G within the sentence bound x every re-spelling within the re-spelling bound (trivia alphabet {SP,LF,TAB SP,/*c*/,SP/* c */SP,--c LF,#c LF,//c LF,'',FF,VT,CRLF,NBSP,U+3000 U+0085,/***/,/* x **/,/*/ */} at each gap incl. before the first and after the last token; case {UPPER,lower,MiXeD} of each reserved/pseudo keyword) plus the uniform re-spellings; " +
		"a re-spelling is admitted only if the reference lexer R1 gives it the same significant tokens as the default spelling; oracle: accepted and R4-equal to the default spelling's tree; non-trivial = admitted re-spelling; distinct by text"
	r.Assume = []string{"R1 decides admission, never the implementation"}
	// the core trivia (one per lexical class) are used with the deeper sentences, the whole alphabet with the shallow ones
	core := []string{" ", "\n", "/*c*/", "--c\n", "", "\r\n"}
	all := trivia
	respell(r, "", 1, 1, all)
	respell(r, "", 2, 1, core)
	// the type grammar is small: its nested forms (ARRAY<STRUCT< >>, closers fused to ">>") lie 4 deviations deep
	respell(r, "type", 4, 1, core)
	if r.Tier == "thorough" {
		respell(r, "", 2, 1, all)
		respell(r, "", 1, 2, all)
		respell(r, "type", 5, 2, core)
	}
}

// respell explores the re-spellings of the sentences of every root of G (only == "") or of one root.
func respell(r *explore.Run, only string, sDev, rDev int, trivia []string) {
	roots := grammar.Roots
	label := ""
	if only != "" {
		roots = nil
		for _, rt := range grammar.Roots {
			if rt.Name == only {
				roots = append(roots, rt)
			}
		}
		label = "/" + only
	}
	r.Explore(explore.Options{Space: fmt.Sprintf("S6/respellings%s(%d,%d,%d trivia)", label, sDev, rDev, len(trivia)), MaxDev: sDev + rDev, SplitLen: 3,
		Bound: fmt.Sprintf("sentences of G with <=%d deviations x (re-spellings with <=%d deviations over %d trivia forms + %d uniform re-spellings)", sDev, rDev, len(trivia), len(trivia)*3)},
		func(c *explore.Ctx) {
			root := roots[c.ChooseFree(len(roots))]
			s := grammar.Derive(c, root)
			sentCost := c.Cost()
			if sentCost > sDev {
				// the shared deviation budget must not be spent entirely on the sentence
				return
			}
			def := s.Text()
			// re-spelling: uniform mode or per-gap/per-keyword deviations
			var b strings.Builder
			mode := c.ChooseFree(1 + len(trivia)*3)
			kwTok := func(t grammar.Tok) bool { return t.Class == grammar.KW || t.Class == grammar.PKW }
			desc := ""
			if mode > 0 {
				tr, cs := trivia[(mode-1)/3], (mode-1)%3
				if tr != "" {
					b.WriteString(tr)
				}
				for i, t := range s.Src {
					tx := t.Text
					if kwTok(t) {
						tx = caseVariant(tx, cs)
					}
					b.WriteString(tx)
					if i+1 < len(s.Src) && t.NoGap {
						continue
					}
					b.WriteString(tr)
				}
				desc = fmt.Sprintf("uniform trivia=%q case=%d", tr, cs)
			} else {
				budget := rDev
				pick := func(n int) int {
					if budget == 0 {
						return 0
					}
					k := c.Choose(n)
					if k != 0 {
						budget--
					}
					return k
				}
				if k := pick(len(trivia)); k != 0 {
					b.WriteString(trivia[k])
				}
				for i, t := range s.Src {
					tx := t.Text
					if kwTok(t) {
						tx = caseVariant(tx, pick(3))
					}
					b.WriteString(tx)
					last := i+1 == len(s.Src)
					if last {
						// comments that only the end of the input can terminate
						if k := pick(1 + len(endTrivia)); k != 0 {
							b.WriteString(endTrivia[k-1])
							break
						}
					}
					k := pick(len(trivia))
					switch {
					case last && k == 0:
					case t.NoGap && k == 0:
					default:
						b.WriteString(trivia[k])
					}
				}
				if c.Cost() == sentCost {
					return // the default spelling itself
				}
				desc = "deviations"
			}
			text := b.String()
			c.Input(text)
			want, ok1 := sigTokens(def)
			got, ok2 := sigTokens(text)
			if only == "type" {
				// in a type every ">" is a closing bracket: two of them written ">>" are still those two tokens
				// (the parser splits the lexer's ">>" again), so "> >" and ">>" are re-spellings of each other
				want, got = splitTypeClosers(want), splitTypeClosers(got)
			}
			if !ok1 || !ok2 || want != got {
				c.Count("not_admitted", 1)
				return
			}
			c.Count("admitted", 1)
			c.Sample(fmt.Sprintf("%s (%s): %q", s.Root, desc, text))
			en := specificEntry(s.Kind)
			if en == "" {
				en = "ParseStatement"
			}
			e := EntryByName(en)
			r0 := e.Call(def)
			if r0.Panic != nil || r0.Err != nil {
				return // C08
			}
			r1 := e.Call(text)
			c.OutcomeStr(text)
			c.Nontrivial(explore.Hash(text))
			switch {
			case r1.Panic != nil:
			case r1.Err != nil:
				c.Violation("C16/respelling-rejected/"+errClass(r1.Err)+"/"+errContext(text, r1.Err), text, fmt.Sprintf("default spelling %q is accepted, re-spelling %q is rejected: %v", def, text, r1.Err))
			default:
				if d := oracle.EqualUpToPos(r0.Roots[0], r1.Roots[0]); d != "" {
					c.Violation("C16/ast-differs/"+oracle.SigOf(d), text, fmt.Sprintf("re-spelling %q of %q parses differently: %s", text, def, d))
				}
			}
		})
}

func init() {
	Registry["C06"] = C06
	Registry["C16"] = C16
}
