#!/usr/bin/env python3
"""Generate MANIFEST.json from the table below (kept in one place so it always validates)."""
import json
checks = {
 "C04": ("exploration", "bounded-exhaustive enumeration of token strings, corpus and grammar sentences; every method on every node reached by a reflective walker",
         "Every tree returned for every enumerated input (with and without errors, four entry points per alphabet) has Walk/Inspect/Preorder run on it and SQL()/Pos()/End() called on every node found by reflection; any panic is a violation.",
         "Trees the parser can only build from longer inputs than the bounds are not reached.", "6 C04"),
 "C05": ("exploration", "bounded-exhaustive enumeration of token strings, corpus and grammar sentences; range/alignment/nesting/order oracle on every node",
         "Range, token alignment (error-free inputs), nesting and sibling order are evaluated on every node of every tree of the enumerated inputs, for both clauses of the property.",
         "Token boundaries come from the public lexer (C13/C14 decide it).", "6 C05"),
 "C09": ("exploration", "bounded-exhaustive enumeration of token strings, corpus and grammar sentences; error-contract oracle incl. drop-last-token differential",
         "Every call on the enumerated inputs is checked: nil error => no Bad node and no ignored trailing token (removing the last token must change the result); Bad node => error; error count >= BadNode count; messages and positions well formed.",
         "An ignored trailing token is detected by the differential 'same result without the last token', exempting the documented trailing ',' and list ';'.", "6 C09"),
 "C10": ("exploration", "bounded-exhaustive enumeration of token strings (with comment/empty glue), corpus and edited grammar sentences; Bad-node token oracle",
         "Every BadNode of every returned tree is compared with the recovery-mode lexing of the whole input restricted to its range (kinds, spellings, extents), for disjointness, and its SQL() is re-lexed.",
         "Uses the overlay accessor for the recovery-mode lexer step; empty-spelling <bad> pseudo tokens (unclosed comment) are ignored in comparisons.", "6 C10"),
 "C17": ("exploration", "bounded-exhaustive enumeration of trees (token strings, corpus, grammar, synthetic node shapes) x prune sets x early-exit indices against a reflective walker",
         "Walk/Inspect/Preorder/*Many are compared with an independent reflective preorder on every tree; for every distinct tree shape every prune set (small trees) or every prune set of size <=2, and every early-exit index.",
         "Prune sets are enumerated once per distinct tree shape (Walk does not look at values).", "6 C17"),
 "C19": ("translation_validation", "regenerate-and-compare of the generated sources + exhaustive interpreter-vs-compiled comparison on synthetic node shapes and all parsed nodes",
         "The repository's generators are re-run and compared byte for byte with ast/pos.go and ast/walk_internal.go; for all 264 node structs every valuation of the fields named in the pos/end documentation (plus bounded deviations on the others) compares compiled Pos()/End() with the poslang interpreter and Walk's children with the declared node-typed fields; the same comparison runs on every node of every parsed tree.",
         "Trusts `go run` of the repository's own generators and the poslang interpreter (the oracle named by the property).", "6 C19"),
 "C03": ("exploration", "bounded-exhaustive enumeration of byte, lexeme and token strings through every entry point under recover and a watchdog",
         "Every S1 byte string, S2 lexeme sequence and S3 token string (lexically malformed tokens at every position, incl. first and after ';') goes through the lexer, the splitter and all nine Parse* functions; any panic, hang, wrongly typed error or nil node is a violation.",
         "Inputs longer than the bounds are not explored; stack exhaustion on deep nesting is out of scope.", "6 C03"),
 "C12": ("exploration", "bounded-exhaustive enumeration of byte/lexeme strings; partition oracle built on reference lexer R1",
         "Every string over a 12-symbol split alphabet and every short sequence of ';'-relevant lexemes goes through SplitRawStatements; pieces, gaps and comments are checked against R1's token and comment extents.",
         "R1 decides where tokens and comments are.", "6 C12"),
 "C15": ("exploration", "exhaustive enumeration of all 1-2 byte strings, all Unicode scalar values and short critical-byte strings; re-lex oracle",
         "The three quoting functions are applied to every value of the enumerated domains and the result is lexed back with the public lexer.",
         "The public lexer is the decoder (C13/C14 decide it).", "6 C15"),
 "C20": ("exploration", "exhaustive enumeration of short texts x all (pos,end) pairs against reference resolver R6; all errors of short token strings",
         "ResolvePos/Position/excerpt are compared with an independent line resolver on every text over {a,LF,CR,0xC3,0xA9} up to the bound and every position pair; every error of every short token string has its message prefix and Position fields checked.",
         "Excerpt format (NNN|  text / cursor line) is taken as given; only which lines are quoted is checked.", "6 C20"),
 "C13": ("exploration", "bounded-exhaustive enumeration of byte/lexeme strings; tiling oracle + continuation (resume-from-state) check on every string",
         "Every string up to the stated length over six lexically significant alphabets, and every short lexeme sequence, is lexed by the real Lexer and the tiling/Raw/Pos/End/eof clauses are checked on each; the continuation check extends the result to longer inputs by induction on token count.",
         "Trusts R1's definition of a complete comment; strings outside the alphabets/lengths are not explored.", "6 C13"),
 "C14": ("model_checking", "exhaustive differential enumeration against reference lexer R1 + explicit-state BFS of the lexer's inter-token control state",
         "Implementation vs. an independently written reference lexer on every enumerated string (kinds, extents, decoded values, comments, accept/reject), and a BFS over the lexer's control states (class of last token x dotIdent) where every lexeme is a transition and two witnesses per state must agree.",
         "R1 is my reading of the lexical-structure documentation; an error shared by R1 and memefish is invisible.", "6 C14"),
}
na = {}
props = [json.loads(l)["id"] for l in open("/verif/properties.jsonl")]
m = {
 "version": 1,
 "setup_cmd": "./setup.sh",
 "hooks": {
  "guard": "verif",
  "enable": "go build -tags verif -overlay <generated overlay.json> (accessor files are injected from /verif/harness/overlay; nothing is committed to /repo)",
  "baseline_off_cmd": "cd /repo && GOFLAGS=-mod=mod go test -vet=off -count=1 -timeout 25m ./...",
  "source_commits": [],
  "add_only": True,
 },
 "engines": [{"name": "explore", "path": "harness/explore", "serves_properties": sorted(checks),
              "kind_free_text": "hand-written stateless DFS explorer over choice sequences (full-product and deviation-bounded), 16 workers, watchdog, signature-grouped violations"}],
 "checks": [],
 "not_applicable": [],
 "notes": "All checks: ./check <id> quick|thorough; rebuilds the harness against /repo's working tree on every invocation.",
}
for pid in props:
    if pid in checks:
        level, tech, text, note, ref = checks[pid]
        m["checks"].append({
            "property_id": pid,
            "quick_cmd": f"./check {pid} quick",
            "thorough_cmd": f"./check {pid} thorough",
            "evidence_file": f"/verif/evidence/{pid}.json",
            "replay_cmd_template": f"./check {pid} quick --replay {{path}}",
            "engine": "explore",
            "level_claimed": {"category": level, "text": text, "design_ref": "DESIGN.md §" + ref},
            "level_note": note,
            "technique": tech,
        })
    else:
        m["not_applicable"].append({"property_id": pid, "reason": na.get(pid, "check not built yet in this session (planned, see DESIGN.md §6); not claimed until its check exists")})
json.dump(m, open("/verif/MANIFEST.json", "w"), indent=1)
print("checks:", len(m["checks"]), "not_applicable:", len(m["not_applicable"]))
