#!/bin/bash
# Pre-build the harness (warms the Go build cache, normal and -race) from files on disk only.
set -e
export GOFLAGS=-mod=mod GOPROXY=off GOSUMDB=off GOTOOLCHAIN=local
cd "$(dirname "$0")"
V="$PWD"
mkdir -p .work/setup evidence
cp /repo/go.sum harness/go.sum
cd harness
go run ./cmd/verifgen -repo /repo -work "$V/.work/setup" -harness "$V/harness"
go build -tags verif -overlay "$V/.work/setup/overlay.json" -o "$V/.work/setup/verifcheck" ./cmd/verifcheck
go run ./cmd/verifgen -repo /repo -work "$V/.work/setup" -harness "$V/harness" -instrument
go build -tags verif -overlay "$V/.work/setup/overlay.json" -o "$V/.work/setup/verifcheck" ./cmd/verifcheck
go build -race -tags verif -overlay "$V/.work/setup/overlay.json" -o "$V/.work/setup/verifcheck-race" ./cmd/verifcheck
cd "$V"
rm -rf .work/setup
echo setup ok
