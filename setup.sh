#!/bin/bash
# Pre-build the harness (warms the Go build cache) from files on disk only.
set -e
export GOFLAGS=-mod=mod GOPROXY=off GOSUMDB=off GOTOOLCHAIN=local
cd "$(dirname "$0")"
mkdir -p .work/setup evidence
cp /repo/go.sum harness/go.sum
python3 mkoverlay.py /repo "$PWD/harness/overlay" "$PWD/.work/setup" > .work/setup/overlay.json
(cd harness && go build -tags verif -overlay ../.work/setup/overlay.json -o ../.work/setup/verifcheck ./cmd/verifcheck)
rm -rf .work/setup
echo setup ok
